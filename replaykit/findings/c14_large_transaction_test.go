package hotline

// Replay of finding C14/sendTransaction (fixed): a transaction larger than io.Copy's 32 KiB buffer
// was handed to the connection in several Write calls; with one goroutine per outgoing transaction
// and no per-connection lock, another transaction's bytes could land between them.

import (
	"bytes"
	"io"
	"log/slog"
	"testing"
)

type verifRecConn struct{ writes [][]byte }

func (c *verifRecConn) Read(p []byte) (int, error)  { return 0, io.EOF }
func (c *verifRecConn) Close() error                 { return nil }
func (c *verifRecConn) Write(p []byte) (int, error) {
	c.writes = append(c.writes, bytes.Clone(p))
	return len(p), nil
}

func TestVerifFinding_C14_LargeTransactionSplitAcrossWrites(t *testing.T) {
	conn := &verifRecConn{}
	cm := NewMemClientMgr()
	cc := &ClientConn{Connection: conn}
	cm.Add(cc)
	s := &Server{ClientMgr: cm, Logger: slog.New(slog.NewTextHandler(io.Discard, nil))}
	tr := NewTransaction(TranServerMsg, cc.ID, NewField(FieldData, make([]byte, 40000)))
	if err := s.sendTransaction(tr); err != nil {
		t.Fatal(err)
	}
	if len(conn.writes) != 1 {
		sizes := []int{}
		for _, w := range conn.writes {
			sizes = append(sizes, len(w))
		}
		t.Fatalf("VERIF-FINDING-REPRODUCED: one transaction was emitted in %d Write calls %v", len(conn.writes), sizes)
	}
}
