package mobius

// Replay of a finding on C18 (fixed): creating a news category or bundle under a name that is
// already taken replaced the existing item, silently discarding every article (and sub-item) in it.

import (
	"path/filepath"
	"testing"

	"github.com/jhalter/mobius/hotline"
)

func TestVerifFinding_C18_CreateGroupingClobbersExisting(t *testing.T) {
	n := &ThreadedNewsYAML{
		ThreadedNews: hotline.ThreadedNews{Categories: map[string]hotline.NewsCategoryListData15{}},
		filePath:     filepath.Join(t.TempDir(), "ThreadedNews.yaml"),
	}
	if err := n.CreateGrouping(nil, "General", hotline.NewsCategory); err != nil {
		t.Fatal(err)
	}
	if err := n.PostArticle([]string{"General"}, 0, hotline.NewsArtData{Title: "hello", Poster: "me", Data: "body"}); err != nil {
		t.Fatal(err)
	}
	if n.GetArticle([]string{"General"}, 1) == nil {
		t.Fatalf("setup: article 1 not found")
	}
	// a second create request under the same name
	_ = n.CreateGrouping(nil, "General", hotline.NewsCategory)
	if n.GetArticle([]string{"General"}, 1) == nil {
		t.Fatalf("VERIF-FINDING-REPRODUCED: creating category \"General\" a second time discarded the article posted to it")
	}
}
