package hotline

// Replay of finding C02 (fixed): the 12-byte handshake and the 16-byte transfer preamble were
// read with io.CopyN into a parser that needs the whole record in one Write, so they were
// rejected whenever TCP delivered them in more than one segment.

import (
	"bytes"
	"io"
	"testing"
	"testing/iotest"
)

type verifRW struct {
	io.Reader
	io.Writer
}

func TestVerifFinding_C02_HandshakeDeliveredByteByByte(t *testing.T) {
	hs := []byte{0x54, 0x52, 0x54, 0x50, 0x48, 0x4F, 0x54, 0x4C, 0, 1, 0, 2}
	var whole, split bytes.Buffer
	errWhole := performHandshake(verifRW{bytes.NewReader(hs), &whole})
	errSplit := performHandshake(verifRW{iotest.OneByteReader(bytes.NewReader(hs)), &split})
	if errWhole != nil {
		t.Fatalf("handshake delivered at once rejected: %v", errWhole)
	}
	if errSplit != nil || !bytes.Equal(whole.Bytes(), split.Bytes()) {
		t.Fatalf("VERIF-FINDING-REPRODUCED: same 12 bytes delivered one at a time: err=%v reply=%x (at once: %x)", errSplit, split.Bytes(), whole.Bytes())
	}
}
