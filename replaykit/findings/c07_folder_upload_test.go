package hotline

// Replay of finding C07 (fixed): folder-upload item paths were joined to the destination folder
// without being rooted, so an item path of ".." segments created directories outside the file root.

import (
	"bytes"
	"io"
	"log/slog"
	"os"
	"path/filepath"
	"testing"
)

type verifRWBuf struct {
	io.Reader
	io.Writer
}

func TestVerifFinding_C07_FolderUploadItemOutsideRoot(t *testing.T) {
	base := t.TempDir()
	root := filepath.Join(base, "a", "b", "Files")
	if err := os.MkdirAll(root, 0o755); err != nil {
		t.Fatal(err)
	}
	// one folder item whose path is ../../escaped
	path := []byte{0, 0, 2, '.', '.', 0, 0, 2, '.', '.', 0, 0, 7, 'e', 's', 'c', 'a', 'p', 'e', 'd'}
	var item []byte
	item = append(item, 0, byte(len(path)+4)) // DataSize
	item = append(item, 0, 1)                 // IsFolder
	item = append(item, 0, 3)                 // PathItemCount
	item = append(item, path...)
	ft := &FileTransfer{FolderItemCount: []byte{0, 1}, bytesSentCounter: &WriteCounter{}}
	var out bytes.Buffer
	_ = UploadFolderHandler(verifRWBuf{bytes.NewReader(item), &out}, filepath.Join(root, "up"), ft, &OSFileStore{},
		slog.New(slog.NewTextHandler(io.Discard, nil)), false)
	if _, err := os.Stat(filepath.Join(root, "..", "escaped")); err == nil {
		t.Fatalf("VERIF-FINDING-REPRODUCED: a folder item with path ../../escaped created %s, outside the file root", filepath.Join(filepath.Dir(root), "escaped"))
	}
}
