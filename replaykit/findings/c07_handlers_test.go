package mobius

// Replays of C07 findings in the file handlers, against the real handlers and the real OSFileStore.

import (
	"os"
	"path/filepath"
	"strings"
	"testing"

	"github.com/jhalter/mobius/hotline"
)

func verifFileCC(t *testing.T) (*hotline.ClientConn, string, string) {
	base := t.TempDir()
	root := filepath.Join(base, "a", "b", "Files")
	if err := os.MkdirAll(root, 0o755); err != nil {
		t.Fatal(err)
	}
	var access hotline.AccessBitmap
	for i := 0; i < 41; i++ {
		access.Set(i)
	}
	cc := &hotline.ClientConn{
		Account: &hotline.Account{Access: access},
		Server:  &hotline.Server{Config: hotline.Config{FileRoot: root}, FS: &hotline.OSFileStore{}},
	}
	return cc, base, root
}

// (fixed) renaming a file to a name such as "../../escaped.txt" moved it outside the file root
func TestVerifFinding_C07_RenameFileOutsideRoot(t *testing.T) {
	cc, base, root := verifFileCC(t)
	if err := os.WriteFile(filepath.Join(root, "f.txt"), []byte("data"), 0o644); err != nil {
		t.Fatal(err)
	}
	req := hotline.NewTransaction(hotline.TranSetFileInfo, [2]byte{0, 1},
		hotline.NewField(hotline.FieldFileName, []byte("f.txt")),
		hotline.NewField(hotline.FieldFileNewName, []byte("../../escaped.txt")))
	HandleSetFileInfo(cc, &req)
	if _, err := os.Stat(filepath.Join(base, "a", "escaped.txt")); err == nil {
		t.Fatalf("VERIF-FINDING-REPRODUCED: rename to ../../escaped.txt moved the file to %s, outside the file root %s", filepath.Join(base, "a", "escaped.txt"), root)
	}
}

// (known) a request that addresses the file root itself (empty name and path) makes the server use
// the side files of the root, which are siblings of the root: here the comment stored in
// <parent>/.info_Files is disclosed by get-file-info
func TestVerifFinding_C07_SideFilesOfTheRootItself(t *testing.T) {
	cc, _, root := verifFileCC(t)
	secret := "comment-stored-outside-the-file-root"
	ffif := hotline.NewFlatFileInformationFork("Files", [8]byte{}, "fldr", "n/a ")
	_ = ffif.SetComment([]byte(secret))
	f, err := os.Create(filepath.Join(filepath.Dir(root), ".info_Files"))
	if err != nil {
		t.Fatal(err)
	}
	buf := make([]byte, 4096)
	n, _ := ffif.Read(buf)
	f.Write(buf[:n])
	f.Close()
	req := hotline.NewTransaction(hotline.TranGetFileInfo, [2]byte{0, 1})
	res := HandleGetFileInfo(cc, &req)
	for _, tr := range res {
		for _, fld := range tr.Fields {
			if strings.Contains(string(fld.Data), secret) {
				t.Fatalf("VERIF-FINDING-REPRODUCED: get-file-info on the root returned the comment stored in %s (outside the file root)", filepath.Join(filepath.Dir(root), ".info_Files"))
			}
		}
	}
}
