package hotline

// Replay of a finding on C12 (fixed): MemChatManager.New used whatever four random bytes it drew as
// the new private chat's ID.  All zero is the ID HandleChatSend treats as the public chat (the
// chat's lines would go to every connected user); an ID already in use replaced the open chat and
// dropped its members.  The random source is crypto/rand.Reader, replaced here by a scripted one.

import (
	"crypto/rand"
	"testing"
)

type scriptedRand struct{ seq []byte }

func (s *scriptedRand) Read(p []byte) (int, error) {
	for i := range p {
		b := byte(9)
		if len(s.seq) > 0 {
			b, s.seq = s.seq[0], s.seq[1:]
		}
		p[i] = b
	}
	return len(p), nil
}

func TestVerifFinding_C12_ChatIDDraw(t *testing.T) {
	old := rand.Reader
	defer func() { rand.Reader = old }()

	cm := NewMemChatManager()
	a := &ClientConn{ID: [2]byte{0, 1}}
	b := &ClientConn{ID: [2]byte{0, 2}}

	// first draw 7,7,7,7; second draw the same again, then 8,8,8,8
	rand.Reader = &scriptedRand{seq: []byte{7, 7, 7, 7, 7, 7, 7, 7, 8, 8, 8, 8}}
	id1 := cm.New(a)
	id2 := cm.New(b)
	if id1 == id2 {
		t.Fatalf("VERIF-FINDING-REPRODUCED: two open chats share ID %v; the first chat now has %d member(s), its creator is gone", id1, len(cm.Members(id1)))
	}
	// all-zero draw, then 5,5,5,5
	rand.Reader = &scriptedRand{seq: []byte{0, 0, 0, 0, 5, 5, 5, 5}}
	if id3 := cm.New(a); id3 == (ChatID{}) {
		t.Fatalf("VERIF-FINDING-REPRODUCED: a private chat got the public chat's ID 00 00 00 00")
	}
}
