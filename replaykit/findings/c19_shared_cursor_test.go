package mobius

// Replay of known finding C19 (S13): the message board (and the agreement) is served through ONE
// read cursor shared by all clients, set by Seek without the lock and advanced by Read.  A
// sequential interleaving of two clients' Seek + ReadAll suffices (no goroutines needed):
//   A: Seek(0)     B: Seek(0); ReadAll     A: ReadAll  ->  A receives an empty board.

import (
	"io"
	"os"
	"path/filepath"
	"testing"
)

func TestVerifFinding_C19_SharedReadCursor(t *testing.T) {
	dir := t.TempDir()
	p := filepath.Join(dir, "MessageBoard.txt")
	board := "From alice (Jan01 10:00):\r\rhello\r\r__________\r"
	if err := os.WriteFile(p, []byte(board), 0o644); err != nil {
		t.Fatal(err)
	}
	fn, err := NewFlatNews(p)
	if err != nil {
		t.Fatal(err)
	}
	_, _ = fn.Seek(0, 0)      // client A starts HandleGetMsgs
	_, _ = fn.Seek(0, 0)      // client B runs HandleGetMsgs completely
	b, _ := io.ReadAll(fn)    //
	a, _ := io.ReadAll(fn)    // client A continues
	if string(b) != board {
		t.Fatalf("client B did not get the board: %q", b)
	}
	if string(a) != board {
		t.Fatalf("VERIF-FINDING-REPRODUCED: client A asked for the board while B was reading and received %q instead of the complete text", a)
	}
}
