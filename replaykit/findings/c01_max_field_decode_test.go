package hotline

// Replay of a finding on C01 (fixed): a transaction whose field carries 65533..65535 bytes of data
// (legal: the length prefix is 16 bits) is emitted by Transaction.Read but could not be decoded
// again by Transaction.Write -- the field area was split with a bufio.Scanner under its default
// 64 KiB token limit, and a field is 4 header bytes longer than its data.

import (
	"bytes"
	"io"
	"testing"
)

func TestVerifFinding_C01_MaxSizeFieldDoesNotDecode(t *testing.T) {
	for _, n := range []int{65532, 65533, 65535} {
		data := bytes.Repeat([]byte{0x41}, n)
		tr := NewTransaction(TranChatSend, [2]byte{0, 1}, NewField(FieldData, data))
		wire, err := io.ReadAll(&tr)
		if err != nil {
			t.Fatal(err)
		}
		var back Transaction
		if _, err := back.Write(wire); err != nil {
			t.Fatalf("VERIF-FINDING-REPRODUCED: a transaction with a %d-byte field is emitted (%d bytes) but cannot be decoded: %v", n, len(wire), err)
		}
		if len(back.Fields) != 1 || !bytes.Equal(back.Fields[0].Data, data) {
			t.Fatalf("VERIF-FINDING-REPRODUCED: decoded fields differ for a %d-byte field", n)
		}
	}
}
