package hotline

// Replay of finding C13/MemClientMgr.Add (fixed): after 65 535 further connections the 16-bit
// ID of a client that is still connected was handed out again and its registry entry overwritten.

import "testing"

func TestVerifFinding_C13_Add_IDReuseAfterWrap(t *testing.T) {
	cm := NewMemClientMgr()
	first := &ClientConn{}
	cm.Add(first)
	firstID := first.ID
	for i := 0; i < 65536; i++ {
		c := &ClientConn{}
		cm.Add(c)
		if c.ID == firstID {
			t.Fatalf("VERIF-FINDING-REPRODUCED: connection %d received the ID %v of a client that is still connected", i+2, firstID)
		}
		cm.Delete(c.ID)
	}
	if cm.Get(firstID) != first {
		t.Fatalf("VERIF-FINDING-REPRODUCED: the first client is no longer registered under its ID")
	}
}
