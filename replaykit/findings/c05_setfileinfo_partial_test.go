package mobius

// Replay of known finding C05/HandleSetFileInfo: a request that carries both a comment and a
// new name, from an account that may set file comments but may not rename files, is refused
// with an error reply -- after the comment has already been written.
// Runs against the real handler and the real OSFileStore (injected with go test -overlay).

import (
	"os"
	"path/filepath"
	"strings"
	"testing"

	"github.com/jhalter/mobius/hotline"
)

func TestVerifFinding_C05_SetFileInfo_CommentWrittenBeforeRenameDenied(t *testing.T) {
	root := t.TempDir()
	if err := os.WriteFile(filepath.Join(root, "f.txt"), []byte("data"), 0o644); err != nil {
		t.Fatal(err)
	}
	var access hotline.AccessBitmap
	access.Set(hotline.AccessSetFileComment) // but not AccessRenameFile
	cc := &hotline.ClientConn{
		Account: &hotline.Account{Access: access},
		Server: &hotline.Server{
			Config: hotline.Config{FileRoot: root},
			FS:     &hotline.OSFileStore{},
		},
	}
	req := hotline.NewTransaction(hotline.TranSetFileInfo, [2]byte{0, 1},
		hotline.NewField(hotline.FieldFileName, []byte("f.txt")),
		hotline.NewField(hotline.FieldFileComment, []byte("changed by a refused request")),
		hotline.NewField(hotline.FieldFileNewName, []byte("g.txt")),
	)
	res := HandleSetFileInfo(cc, &req)
	refused := len(res) == 1 && res[0].ErrorCode == [4]byte{0, 0, 0, 1} &&
		strings.Contains(string(res[0].Fields[0].Data), "not allowed to rename")
	info, _ := os.ReadFile(filepath.Join(root, ".info_f.txt"))
	changed := strings.Contains(string(info), "changed by a refused request")
	t.Logf("refused=%v comment-written=%v", refused, changed)
	if refused && changed {
		t.Fatalf("VERIF-FINDING-REPRODUCED: request refused for lack of the rename privilege, but the comment was written")
	}
}
