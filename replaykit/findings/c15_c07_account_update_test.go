package mobius

// Replays of findings in YAMLAccountManager.Update (fixed):
//  C15  after a rename the old login stayed in the in-memory table and could still log in
//  C07  the account file was written to Join(accountDir, newLogin+".yaml") without rooting the
//       login, so a login such as "../../evil" was written outside the accounts directory

import (
	"os"
	"path/filepath"
	"testing"

	"github.com/jhalter/mobius/hotline"
)

func verifAccountDir(t *testing.T) (string, *YAMLAccountManager) {
	base := t.TempDir()
	dir := filepath.Join(base, "a", "b", "Users")
	if err := os.MkdirAll(dir, 0o755); err != nil {
		t.Fatal(err)
	}
	seed := hotline.NewAccount("guest", "Guest", "", hotline.AccessBitmap{})
	am := &YAMLAccountManager{accountDir: dir, accounts: map[string]hotline.Account{}}
	if err := am.Create(*seed); err != nil {
		t.Fatal(err)
	}
	return base, am
}

func TestVerifFinding_C15_RenamedAwayLoginStillKnown(t *testing.T) {
	_, am := verifAccountDir(t)
	acc := hotline.NewAccount("alice", "Alice", "pw", hotline.AccessBitmap{})
	if err := am.Create(*acc); err != nil {
		t.Fatal(err)
	}
	if err := am.Update(*am.Get("alice"), "alicia"); err != nil {
		t.Fatal(err)
	}
	if am.Get("alicia") == nil {
		t.Fatalf("renamed-to login unknown")
	}
	if am.Get("alice") != nil {
		t.Fatalf("VERIF-FINDING-REPRODUCED: after renaming alice to alicia the login alice is still known to the account manager")
	}
}

func TestVerifFinding_C07_AccountFileOutsideAccountsDir(t *testing.T) {
	base, am := verifAccountDir(t)
	acc := hotline.NewAccount("bob", "Bob", "pw", hotline.AccessBitmap{})
	if err := am.Create(*acc); err != nil {
		t.Fatal(err)
	}
	_ = am.Update(*am.Get("bob"), "../../evil")
	if _, err := os.Stat(filepath.Join(base, "a", "evil.yaml")); err == nil {
		t.Fatalf("VERIF-FINDING-REPRODUCED: renaming an account to ../../evil wrote %s, two levels above the accounts directory", filepath.Join(base, "a", "evil.yaml"))
	}
}
