package hotline

// Replay of a finding on C03 (fixed): the file-transfer accept loop returned on ANY Accept error, and
// ListenAndServe hands that return value to log.Fatal -- so a transient accept failure on the
// transfer port ("too many open files" while a client holds many transfer connections open, a
// connection reset before it was accepted) ended the whole server process.

import (
	"context"
	"errors"
	"io"
	"log/slog"
	"net"
	"syscall"
	"testing"
	"time"
)

type flakyListener struct {
	failed bool
	block  chan struct{}
}

func (l *flakyListener) Accept() (net.Conn, error) {
	if !l.failed {
		l.failed = true
		return nil, &net.OpError{Op: "accept", Net: "tcp", Err: syscall.EMFILE}
	}
	<-l.block
	return nil, errors.New("listener closed")
}
func (l *flakyListener) Close() error   { return nil }
func (l *flakyListener) Addr() net.Addr { return &net.TCPAddr{} }

func TestVerifFinding_C03_TransferAcceptErrorEndsServer(t *testing.T) {
	s := &Server{Logger: slog.New(slog.NewTextHandler(io.Discard, nil))}
	ctx, cancel := context.WithCancel(context.Background())
	defer cancel()
	ln := &flakyListener{block: make(chan struct{})}
	done := make(chan error, 1)
	go func() { done <- s.ServeFileTransfers(ctx, ln) }()
	select {
	case err := <-done:
		t.Fatalf("VERIF-FINDING-REPRODUCED: ServeFileTransfers returned after one transient accept error (%v); ListenAndServe passes that to log.Fatal", err)
	case <-time.After(300 * time.Millisecond):
		// still serving
	}
	cancel()
	close(ln.block)
	select {
	case <-done:
	case <-time.After(2 * time.Second):
		t.Fatalf("ServeFileTransfers did not stop after its context was cancelled")
	}
}
