package hotline

// Replay of finding C03 (fixed): Server.rateLimiters is a plain map that every accept goroutine read
// and wrote without a lock; concurrent connections from new addresses make the Go runtime abort the
// whole process ("fatal error: concurrent map writes").  The server is run in a child process.

import (
	"context"
	"fmt"
	"io"
	"log/slog"
	"net"
	"os"
	"os/exec"
	"strings"
	"sync/atomic"
	"testing"
	"time"
)

type verifFakeConn struct {
	net.Conn
	addr *net.TCPAddr
}

func (c verifFakeConn) RemoteAddr() net.Addr             { return c.addr }
func (c verifFakeConn) Read(p []byte) (int, error)        { return 0, io.EOF }
func (c verifFakeConn) Write(p []byte) (int, error)       { return len(p), nil }
func (c verifFakeConn) Close() error                      { return nil }
func (c verifFakeConn) SetDeadline(time.Time) error       { return nil }

type verifListener struct{ n atomic.Int64 }

func (l *verifListener) Accept() (net.Conn, error) {
	k := l.n.Add(1)
	if k > 200000 {
		time.Sleep(time.Hour)
	}
	return verifFakeConn{addr: &net.TCPAddr{IP: net.IPv4(10, byte(k>>16), byte(k>>8), byte(k)), Port: 1000}}, nil
}
func (l *verifListener) Close() error   { return nil }
func (l *verifListener) Addr() net.Addr { return &net.TCPAddr{} }

func TestVerifFinding_C03_RateLimiterMapRace(t *testing.T) {
	if os.Getenv("VERIF_C03_CHILD") != "" {
		s, _ := NewServer(WithLogger(slog.New(slog.NewTextHandler(io.Discard, nil))))
		s.BanList = verifNoBan2{}
		ctx, cancel := context.WithTimeout(context.Background(), 3*time.Second)
		defer cancel()
		go func() { _ = s.Serve(ctx, &verifListener{}) }()
		<-ctx.Done()
		fmt.Println("CHILD-SURVIVED")
		return
	}
	cmd := exec.Command(os.Args[0], "-test.run", "TestVerifFinding_C03_RateLimiterMapRace")
	cmd.Env = append(os.Environ(), "VERIF_C03_CHILD=1")
	out, _ := cmd.CombinedOutput()
	if strings.Contains(string(out), "concurrent map") {
		t.Fatalf("VERIF-FINDING-REPRODUCED: connections from many addresses aborted the server process: fatal error: concurrent map writes/read")
	}
	if !strings.Contains(string(out), "CHILD-SURVIVED") {
		t.Fatalf("child did not finish: %s", out)
	}
}

type verifNoBan2 struct{}

func (verifNoBan2) Add(string, *time.Time) error       { return nil }
func (verifNoBan2) IsBanned(string) (bool, *time.Time) { return false, nil }
