package hotline

// Replay of known finding C04 (S16): the connection is registered before authentication, and the
// deferred Disconnect of a FAILED login broadcasts "user left" (302) for an ID that never logged in
// to every logged-in user: content other users receive changes before a successful login.

import (
	"bytes"
	"context"
	"io"
	"log/slog"
	"testing"
	"time"
)

type verifNoBan struct{}

func (verifNoBan) Add(string, *time.Time) error       { return nil }
func (verifNoBan) IsBanned(string) (bool, *time.Time) { return false, nil }

type verifAccounts struct{ acc Account }

func (a verifAccounts) Create(Account) error         { return nil }
func (a verifAccounts) Update(Account, string) error { return nil }
func (a verifAccounts) List() []Account              { return nil }
func (a verifAccounts) Delete(string) error          { return nil }
func (a verifAccounts) Get(login string) *Account {
	if login == a.acc.Login {
		c := a.acc
		return &c
	}
	return nil
}

type verifConn struct {
	in  io.Reader
	out bytes.Buffer
}

func (c *verifConn) Read(p []byte) (int, error)  { return c.in.Read(p) }
func (c *verifConn) Write(p []byte) (int, error) { return c.out.Write(p) }
func (c *verifConn) Close() error                { return nil }

func TestVerifFinding_C04_FailedLoginNotifiesOtherUsers(t *testing.T) {
	s, err := NewServer(WithLogger(slog.New(slog.NewTextHandler(io.Discard, nil))))
	if err != nil {
		t.Fatal(err)
	}
	s.BanList = verifNoBan{}
	s.AccountManager = verifAccounts{Account{Login: "admin", Password: HashAndSalt([]byte("secret"))}}
	// a bystander who is logged in
	bystander := s.NewClientConn(&verifConn{in: bytes.NewReader(nil)}, "10.0.0.1:1000")
	bystander.Account = &Account{Login: "admin"}
	// collect what the server queues for delivery
	var got []Transaction
	done := make(chan struct{})
	go func() {
		for {
			select {
			case tr := <-s.outbox:
				got = append(got, tr)
			case <-done:
				return
			}
		}
	}()
	// an unauthenticated peer: valid handshake, login with a wrong password
	login := NewTransaction(TranLogin, [2]byte{0, 0},
		NewField(FieldUserLogin, EncodeString([]byte("admin"))),
		NewField(FieldUserPassword, EncodeString([]byte("wrong"))))
	raw, _ := io.ReadAll(&login)
	stream := append([]byte{0x54, 0x52, 0x54, 0x50, 0x48, 0x4F, 0x54, 0x4C, 0, 1, 0, 2}, raw...)
	_ = s.handleNewConnection(context.Background(), &verifConn{in: bytes.NewReader(stream)}, "10.0.0.2:2000")
	time.Sleep(50 * time.Millisecond)
	close(done)
	for _, tr := range got {
		if tr.ClientID == bystander.ID && tr.Type == TranNotifyDeleteUser {
			t.Fatalf("VERIF-FINDING-REPRODUCED: a failed login made the server send transaction 302 (user left) to a logged-in bystander")
		}
	}
}
