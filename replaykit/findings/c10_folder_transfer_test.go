package hotline

// Replays of two findings on C10 (both fixed):
//  S15  folder upload, resume branch: the error of receiveFile was only logged and the partial file
//       was renamed to its final name anyway, so a truncated transfer became a "complete" file.
//  S14  folder download, resume choice: the size prefix was reduced by the resume offset but the
//       data fork was sent from its first byte.

import (
	"bytes"
	"encoding/binary"
	"io"
	"log/slog"
	"os"
	"path/filepath"
	"testing"
)

type verifRW2 struct {
	io.Reader
	io.Writer
}

func TestVerifFinding_C10_FolderUploadResumeTruncated(t *testing.T) {
	root := t.TempDir()
	if err := os.WriteFile(filepath.Join(root, "f.bin.incomplete"), []byte("abc"), 0o644); err != nil {
		t.Fatal(err)
	}
	path := []byte{0, 0, 5, 'f', '.', 'b', 'i', 'n'}
	var in []byte
	in = append(in, 0, byte(len(path)+4)) // DataSize
	in = append(in, 0, 0)                 // IsFolder: file
	in = append(in, 0, 1)                 // PathItemCount
	in = append(in, path...)
	in = append(in, 0, 0, 0, 0) // file size (read and ignored)
	// a flattened file object announcing 10 data bytes, followed by only 3 of them
	ffo := flattenedFileObject{
		FlatFileHeader:                FlatFileHeader{Format: [4]byte{'F', 'I', 'L', 'P'}, Version: [2]byte{0, 1}, ForkCount: [2]byte{0, 2}},
		FlatFileInformationForkHeader: FlatFileForkHeader{ForkType: [4]byte{'I', 'N', 'F', 'O'}},
		FlatFileInformationFork:       FlatFileInformationFork{Platform: [4]byte{'A', 'M', 'A', 'C'}, Name: []byte("f.bin"), NameSize: [2]byte{0, 5}, Comment: []byte{}},
		FlatFileDataForkHeader:        FlatFileForkHeader{ForkType: [4]byte{'D', 'A', 'T', 'A'}, DataSize: [4]byte{0, 0, 0, 10}},
	}
	hdr, err := io.ReadAll(&ffo)
	if err != nil {
		t.Fatal(err)
	}
	in = append(in, hdr...)
	in = append(in, 'd', 'e', 'f') // 3 of the 10 announced bytes, then the connection ends
	ft := &FileTransfer{FolderItemCount: []byte{0, 1}, bytesSentCounter: &WriteCounter{}}
	var out bytes.Buffer
	_ = UploadFolderHandler(verifRW2{bytes.NewReader(in), &out}, root, ft, &OSFileStore{}, slog.New(slog.NewTextHandler(io.Discard, nil)), false)
	if b, err := os.ReadFile(filepath.Join(root, "f.bin")); err == nil {
		t.Fatalf("VERIF-FINDING-REPRODUCED: a resumed item that broke off after 3 of 10 bytes was given its final name f.bin (content %q)", b)
	}
}

func TestVerifFinding_C10_FolderDownloadResumeSendsWholeFile(t *testing.T) {
	root := t.TempDir()
	dir := filepath.Join(root, "d")
	if err := os.Mkdir(dir, 0o755); err != nil {
		t.Fatal(err)
	}
	if err := os.WriteFile(filepath.Join(dir, "a.txt"), []byte("0123456789"), 0o644); err != nil {
		t.Fatal(err)
	}
	var off [4]byte
	binary.BigEndian.PutUint32(off[:], 4)
	frd := NewFileResumeData([]ForkInfoList{{Fork: [4]byte{'D', 'A', 'T', 'A'}, DataSize: off}})
	rd, _ := frd.BinaryMarshal()
	var in []byte
	in = append(in, 0, 1)                                 // initial next action
	in = append(in, 0, DlFldrActionResumeFile)            // for a.txt: resume
	in = append(in, byte(len(rd)>>8), byte(len(rd)))      // resume data size
	in = append(in, rd...)                                // resume data (offset 4)
	in = append(in, 0, DlFldrActionNextFile)              // after the file
	var out bytes.Buffer
	ft := &FileTransfer{bytesSentCounter: &WriteCounter{}}
	if err := DownloadFolderHandler(verifRW2{bytes.NewReader(in), &out}, dir, ft, &OSFileStore{}, slog.New(slog.NewTextHandler(io.Discard, nil)), false); err != nil {
		t.Fatalf("unexpected error: %v", err)
	}
	if bytes.HasSuffix(out.Bytes(), []byte("0123456789")) {
		t.Fatalf("VERIF-FINDING-REPRODUCED: resume at offset 4 sent the data fork from byte 0 (stream ends with the whole file)")
	}
	if !bytes.HasSuffix(out.Bytes(), []byte("456789")) {
		t.Fatalf("stream does not end with the data fork from the resume offset: %q", out.Bytes())
	}
}
