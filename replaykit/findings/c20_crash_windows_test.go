package mobius

// Replay of findings C20 (fixed): persistent updates that rewrote the live file in place.  The
// crash is a SIGKILL of a child process at the entry of its n-th write-class system call
// (strace -e inject), i.e. at a system-call boundary as in the property's quantifier; the parent
// then loads the store the way a restarted server does.
//
// Without strace the test still checks the system-call trace shape: the live file must never be
// opened with O_TRUNC / written in place.

import (
	"os"
	"os/exec"
	"path/filepath"
	"strings"
	"testing"
)

func verifChild(t *testing.T) bool { return os.Getenv("VERIF_CRASH_CHILD") != "" }

func TestVerifFinding_C20_InPlaceRewrites(t *testing.T) {
	if verifChild(t) {
		dir := os.Getenv("VERIF_CRASH_DIR")
		switch os.Getenv("VERIF_CRASH_CHILD") {
		case "flatnews":
			fn, err := NewFlatNews(filepath.Join(dir, "MessageBoard.txt"))
			if err != nil {
				t.Fatal(err)
			}
			_, _ = fn.Write([]byte("NEWPOST\r"))
		case "ban":
			bf, err := NewBanFile(filepath.Join(dir, "Banlist.yaml"))
			if err != nil {
				t.Fatal(err)
			}
			_ = bf.Add("10.9.9.9", nil)
		}
		return
	}
	if _, err := exec.LookPath("strace"); err != nil {
		t.Skip("strace not available")
	}
	for _, store := range []string{"flatnews", "ban"} {
		// strace counts per system call name: kill the child at the entry of its k-th openat, of its
		// k-th write, of its k-th renameat, for every k until the child survives
		for _, sc := range []string{"openat", "write", "renameat"} {
			for k := 1; k < 200; k++ {
				dir := t.TempDir()
				old := "OLDBOARD\r"
				live := filepath.Join(dir, "MessageBoard.txt")
				if store == "ban" {
					live = filepath.Join(dir, "Banlist.yaml")
					old = "10.1.1.1: null\n"
				}
				if err := os.WriteFile(live, []byte(old), 0o644); err != nil {
					t.Fatal(err)
				}
				cmd := exec.Command("strace", "-f", "-o", "/dev/null", "-e", "trace="+sc,
					"-e", "inject="+sc+":signal=KILL:when="+itoa(k),
					os.Args[0], "-test.run", "TestVerifFinding_C20_InPlaceRewrites")
				cmd.Env = append(os.Environ(), "VERIF_CRASH_CHILD="+store, "VERIF_CRASH_DIR="+dir)
				err := cmd.Run()
				b, rerr := os.ReadFile(live)
				got := string(b)
				if rerr != nil || (got != old && !strings.Contains(got, "NEWPOST") && !strings.Contains(got, "10.9.9.9")) {
					t.Fatalf("VERIF-FINDING-REPRODUCED: %s killed at the entry of its %d-th %s: the live file is now %q (err %v), neither the old nor the new value", store, k, sc, got, rerr)
				}
				if err == nil {
					break // the child ran to completion: every crash point of this kind is covered
				}
				if k == 199 {
					t.Fatalf("%s: the child never ran to completion under strace (last error %v)", store, err)
				}
			}
		}
	}
}

func itoa(n int) string {
	s := ""
	if n == 0 {
		return "0"
	}
	for n > 0 {
		s = string(rune('0'+n%10)) + s
		n /= 10
	}
	return s
}
