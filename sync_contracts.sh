#!/bin/sh
# copies the contract mirror into /repo (guarded comment-only files) and commits there when changed
set -e
cd "$(dirname "$0")"
cp contracts/hotline__zz_verif_contracts.go /repo/hotline/zz_verif_contracts.go
[ -f contracts/internal__mobius__zz_verif_contracts.go ] && cp contracts/internal__mobius__zz_verif_contracts.go /repo/internal/mobius/zz_verif_contracts.go
cd /repo
git add hotline/zz_verif_contracts.go internal/mobius/zz_verif_contracts.go 2>/dev/null || git add hotline/zz_verif_contracts.go
git diff --cached --quiet || git commit -qm "verif hook: contracts (comment-only files behind build tag verif)"
git log --oneline | head -1
