package main

// Flattening of Go types into scalar cells.
//
//	intN/uintN/uintptr/float (opaque)     1 Int cell
//	bool                                  1 Bool cell
//	string                                1 cell: abstract string value (strlen/strat)
//	*T                                    2 cells (ref, off)
//	[]T                                   4 cells (ref, off, len, cap); element i at (ref, off+i*size(T))
//	[N]T                                  N*size(T) cells
//	struct                                concatenation of the fields
//	interface                             3 cells (typeid, a, b)
//	map, chan, func, unsafe.Pointer       1 cell (ref)
//	tuple                                 concatenation

import (
	"fmt"
	"go/types"
)

const maxCells = 1 << 14

type cellKind int

const (
	kInt cellKind = iota
	kBool
	kStr
	kRef    // ref part of pointer/slice/map/chan/func
	kOff    // offset part
	kLen    // slice len
	kCap    // slice cap
	kTypeID // interface type id
	kIfaceA
	kIfaceB
)

type cellInfo struct {
	kind cellKind
	lo   string // inclusive range for kInt, "" = unbounded
	hi   string
}

type layout struct {
	cells []cellInfo
}

type layouts struct {
	cache map[types.Type]*layout
}

func newLayouts() *layouts { return &layouts{cache: map[types.Type]*layout{}} }

func intRange(b *types.Basic) (string, string) {
	switch b.Kind() {
	case types.Int8:
		return "(- 128)", "127"
	case types.Int16:
		return "(- 32768)", "32767"
	case types.Int32:
		return "(- 2147483648)", "2147483647"
	case types.Int, types.Int64:
		return "(- 9223372036854775808)", "9223372036854775807"
	case types.Uint8:
		return "0", "255"
	case types.Uint16:
		return "0", "65535"
	case types.Uint32:
		return "0", "4294967295"
	case types.Uint, types.Uint64, types.Uintptr:
		return "0", "18446744073709551615"
	case types.UntypedInt, types.UntypedRune:
		return "", ""
	}
	return "", ""
}

// modulus returns 2^bits for integer kinds and whether the type is signed.
func intBits(b *types.Basic) (bits int, signed bool, ok bool) {
	switch b.Kind() {
	case types.Int8:
		return 8, true, true
	case types.Int16:
		return 16, true, true
	case types.Int32:
		return 32, true, true
	case types.Int, types.Int64:
		return 64, true, true
	case types.Uint8:
		return 8, false, true
	case types.Uint16:
		return 16, false, true
	case types.Uint32:
		return 32, false, true
	case types.Uint, types.Uint64, types.Uintptr:
		return 64, false, true
	}
	return 0, false, false
}

func pow2(n int) string {
	// exact decimal string of 2^n for n <= 64
	v := uint64(1)
	if n < 64 {
		return fmt.Sprintf("%d", v<<uint(n))
	}
	return "18446744073709551616"
}

func (ls *layouts) of(t types.Type) *layout {
	if l, ok := ls.cache[t]; ok {
		return l
	}
	l := &layout{}
	ls.cache[t] = l // provisional (recursive types go through pointers, so this is safe)
	switch u := t.Underlying().(type) {
	case *types.Basic:
		switch {
		case u.Info()&types.IsBoolean != 0:
			l.cells = []cellInfo{{kind: kBool}}
		case u.Info()&types.IsString != 0:
			l.cells = []cellInfo{{kind: kStr}}
		case u.Kind() == types.UnsafePointer:
			l.cells = []cellInfo{{kind: kRef}}
		default:
			lo, hi := intRange(u)
			l.cells = []cellInfo{{kind: kInt, lo: lo, hi: hi}}
		}
	case *types.Pointer:
		l.cells = []cellInfo{{kind: kRef}, {kind: kOff}}
	case *types.Slice:
		l.cells = []cellInfo{{kind: kRef}, {kind: kOff}, {kind: kLen}, {kind: kCap}}
	case *types.Array:
		el := ls.of(u.Elem())
		n := int(u.Len())
		if n*len(el.cells) > maxCells {
			panic(unsupported(fmt.Sprintf("array too large to flatten: %s", t)))
		}
		for i := 0; i < n; i++ {
			l.cells = append(l.cells, el.cells...)
		}
	case *types.Struct:
		for i := 0; i < u.NumFields(); i++ {
			l.cells = append(l.cells, ls.of(u.Field(i).Type()).cells...)
		}
		if len(l.cells) > maxCells {
			panic(unsupported(fmt.Sprintf("struct too large to flatten: %s", t)))
		}
	case *types.Interface:
		l.cells = []cellInfo{{kind: kTypeID}, {kind: kIfaceA}, {kind: kIfaceB}}
	case *types.Map, *types.Chan, *types.Signature:
		l.cells = []cellInfo{{kind: kRef}}
	case *types.Tuple:
		for i := 0; i < u.Len(); i++ {
			l.cells = append(l.cells, ls.of(u.At(i).Type()).cells...)
		}
	default:
		// type parameters etc.: opaque single cell
		l.cells = []cellInfo{{kind: kInt}}
	}
	return l
}

func (ls *layouts) size(t types.Type) int { return len(ls.of(t).cells) }

// fieldOff returns the cell offset of field i of struct type t.
func (ls *layouts) fieldOff(st *types.Struct, i int) int {
	off := 0
	for j := 0; j < i; j++ {
		off += ls.size(st.Field(j).Type())
	}
	return off
}

func (ls *layouts) tupleOff(tp *types.Tuple, i int) int {
	off := 0
	for j := 0; j < i; j++ {
		off += ls.size(tp.At(j).Type())
	}
	return off
}

type unsupported string

func (u unsupported) Error() string { return string(u) }

func zeroVal(l *layout) Val {
	v := make(Val, len(l.cells))
	for i, c := range l.cells {
		if c.kind == kBool {
			v[i] = bc("false")
		} else {
			v[i] = ic("0")
		}
	}
	return v
}
