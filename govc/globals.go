package main

// Package-level variables initialised from constant composite literals and never
// stored to outside package initialisation are treated as constants
// (FieldError = [2]byte{0,100}, TranKeepAlive, ...).  io.EOF is a fixed non-nil error.

import (
	"go/ast"
	"go/constant"
	"go/types"

	"golang.org/x/tools/go/packages"
	"golang.org/x/tools/go/ssa"
)

type define struct {
	params []string
	body   ast.Expr
}

type globalInfo struct {
	val Val
	ok  bool
}

var globalCache = map[*ssa.Global]*globalInfo{}

func (e *Engine) globalInit(x *Exec, g *ssa.Global) (Val, bool) {
	if g.Pkg != nil && g.Pkg.Pkg.Path() == "io" && g.Name() == "EOF" {
		return nil, false // handled by caller through eofVal
	}
	if gi, ok := globalCache[g]; ok {
		return gi.val, gi.ok
	}
	gi := &globalInfo{}
	globalCache[g] = gi
	if g.Pkg == nil {
		return nil, false
	}
	pp := e.ppkgs[g.Pkg.Pkg.Path()]
	if pp == nil {
		return nil, false
	}
	if e.writtenGlobals == nil {
		e.findWrittenGlobals()
	}
	if e.writtenGlobals[g] {
		return nil, false
	}
	obj := g.Object()
	for _, f := range pp.Syntax {
		for _, d := range f.Decls {
			gd, ok := d.(*ast.GenDecl)
			if !ok {
				continue
			}
			for _, sp := range gd.Specs {
				vs, ok := sp.(*ast.ValueSpec)
				if !ok {
					continue
				}
				for i, n := range vs.Names {
					if pp.TypesInfo.Defs[n] != obj || i >= len(vs.Values) {
						continue
					}
					if v, ok := constLit(pp, vs.Values[i], g.Type().(*types.Pointer).Elem()); ok {
						gi.val, gi.ok = v, true
						return v, true
					}
				}
			}
		}
	}
	return nil, false
}

// constLit evaluates an initialiser made of constants: scalars and (nested) array literals of integers.
func constLit(pp *packages.Package, e ast.Expr, t types.Type) (Val, bool) {
	if tv, ok := pp.TypesInfo.Types[e]; ok && tv.Value != nil {
		switch tv.Value.Kind() {
		case constant.Int:
			if v, ok := constant.Int64Val(tv.Value); ok {
				return Val{ic(itoa(v))}, true
			}
		case constant.Bool:
			if constant.BoolVal(tv.Value) {
				return Val{bc("true")}, true
			}
			return Val{bc("false")}, true
		}
		return nil, false
	}
	cl, ok := e.(*ast.CompositeLit)
	if !ok {
		return nil, false
	}
	arr, ok := t.Underlying().(*types.Array)
	if !ok {
		return nil, false
	}
	if _, ok := arr.Elem().Underlying().(*types.Basic); !ok {
		return nil, false
	}
	out := make(Val, arr.Len())
	for i := range out {
		out[i] = ic("0")
	}
	idx := 0
	for _, el := range cl.Elts {
		if kv, ok := el.(*ast.KeyValueExpr); ok {
			tv := pp.TypesInfo.Types[kv.Key]
			if tv.Value == nil {
				return nil, false
			}
			k, _ := constant.Int64Val(tv.Value)
			idx = int(k)
			el = kv.Value
		}
		v, ok := constLit(pp, el, arr.Elem())
		if !ok || len(v) != 1 || idx >= len(out) {
			return nil, false
		}
		out[idx] = v[0]
		idx++
	}
	return out, true
}

func (e *Engine) findWrittenGlobals() {
	e.writtenGlobals = map[*ssa.Global]bool{}
	var root func(v ssa.Value) *ssa.Global
	root = func(v ssa.Value) *ssa.Global {
		switch a := v.(type) {
		case *ssa.Global:
			return a
		case *ssa.IndexAddr:
			return root(a.X)
		case *ssa.FieldAddr:
			return root(a.X)
		}
		return nil
	}
	for _, fn := range e.funcs {
		if fn.Name() == "init" {
			continue
		}
		for _, b := range fn.Blocks {
			for _, ins := range b.Instrs {
				if st, ok := ins.(*ssa.Store); ok {
					if g := root(st.Addr); g != nil {
						e.writtenGlobals[g] = true
					}
				}
			}
		}
	}
}
