package main

// Package-level variables initialised from constant composite literals and never
// stored to outside package initialisation are treated as constants
// (FieldError = [2]byte{0,100}, TranKeepAlive, ...).  io.EOF is a fixed non-nil error.

import (
	"fmt"
	"go/ast"
	"go/constant"
	"go/types"

	"golang.org/x/tools/go/packages"
	"golang.org/x/tools/go/ssa"
)

type define struct {
	params []string
	body   ast.Expr
}

type globalInfo struct {
	val     Val
	ok      bool
	content []byte // for []byte globals: the bytes of the backing array
}

var globalCache = map[*ssa.Global]*globalInfo{}

func (e *Engine) globalInit(x *Exec, g *ssa.Global) (Val, bool) {
	if g.Pkg != nil && g.Pkg.Pkg.Path() == "io" && g.Name() == "EOF" {
		return nil, false // handled by caller through eofVal
	}
	if gi, ok := globalCache[g]; ok {
		if gi.ok && gi.content != nil {
			x.globalContentFacts(gi.val[0].T, gi.content)
		}
		return gi.val, gi.ok
	}
	gi := &globalInfo{}
	globalCache[g] = gi
	if g.Pkg == nil {
		return nil, false
	}
	pp := e.ppkgs[g.Pkg.Pkg.Path()]
	if pp == nil {
		return nil, false
	}
	if e.writtenGlobals == nil {
		e.findWrittenGlobals()
	}
	if e.writtenGlobals[g] {
		return nil, false
	}
	obj := g.Object()
	for _, f := range pp.Syntax {
		for _, d := range f.Decls {
			gd, ok := d.(*ast.GenDecl)
			if !ok {
				continue
			}
			for _, sp := range gd.Specs {
				vs, ok := sp.(*ast.ValueSpec)
				if !ok {
					continue
				}
				for i, n := range vs.Names {
					if pp.TypesInfo.Defs[n] != obj || i >= len(vs.Values) {
						continue
					}
					gt := g.Type().(*types.Pointer).Elem()
					if v, ok := constLit(pp, vs.Values[i], gt); ok {
						gi.val, gi.ok = v, true
						return v, true
					}
					if bs, ok := byteSliceLit(pp, vs.Values[i], gt); ok {
						// backing array: a dedicated object below the heap, contents fixed in the initial memory
						ref := itoa(int64(maxGlobals - 1 - e.globalRef(g)))
						n := itoa(int64(len(bs)))
						gi.val, gi.ok, gi.content = Val{ic(ref), ic("0"), ic(n), ic(n)}, true, bs
						x.globalContentFacts(ref, bs)
						return gi.val, true
					}
				}
			}
		}
	}
	return nil, false
}

// constLit evaluates an initialiser made of constants: scalars and (nested) array literals of integers.
func constLit(pp *packages.Package, e ast.Expr, t types.Type) (Val, bool) {
	if tv, ok := pp.TypesInfo.Types[e]; ok && tv.Value != nil {
		switch tv.Value.Kind() {
		case constant.Int:
			if v, ok := constant.Int64Val(tv.Value); ok {
				return Val{ic(itoa(v))}, true
			}
		case constant.Bool:
			if constant.BoolVal(tv.Value) {
				return Val{bc("true")}, true
			}
			return Val{bc("false")}, true
		}
		return nil, false
	}
	cl, ok := e.(*ast.CompositeLit)
	if !ok {
		return nil, false
	}
	arr, ok := t.Underlying().(*types.Array)
	if !ok {
		return nil, false
	}
	if _, ok := arr.Elem().Underlying().(*types.Basic); !ok {
		return nil, false
	}
	out := make(Val, arr.Len())
	for i := range out {
		out[i] = ic("0")
	}
	idx := 0
	for _, el := range cl.Elts {
		if kv, ok := el.(*ast.KeyValueExpr); ok {
			tv := pp.TypesInfo.Types[kv.Key]
			if tv.Value == nil {
				return nil, false
			}
			k, _ := constant.Int64Val(tv.Value)
			idx = int(k)
			el = kv.Value
		}
		v, ok := constLit(pp, el, arr.Elem())
		if !ok || len(v) != 1 || idx >= len(out) {
			return nil, false
		}
		out[idx] = v[0]
		idx++
	}
	return out, true
}

func (e *Engine) findWrittenGlobals() {
	e.writtenGlobals = map[*ssa.Global]bool{}
	var root func(v ssa.Value) *ssa.Global
	root = func(v ssa.Value) *ssa.Global {
		switch a := v.(type) {
		case *ssa.Global:
			return a
		case *ssa.IndexAddr:
			return root(a.X)
		case *ssa.FieldAddr:
			return root(a.X)
		}
		return nil
	}
	for _, fn := range e.funcs {
		if fn.Name() == "init" {
			continue
		}
		for _, b := range fn.Blocks {
			for _, ins := range b.Instrs {
				if st, ok := ins.(*ssa.Store); ok {
					if g := root(st.Addr); g != nil {
						e.writtenGlobals[g] = true
					}
				}
			}
		}
	}
}

// byteSliceLit: []byte{c, ...} or []byte("...") initialisers
func byteSliceLit(pp *packages.Package, e ast.Expr, t types.Type) ([]byte, bool) {
	sl, ok := t.Underlying().(*types.Slice)
	if !ok {
		return nil, false
	}
	if b, ok := sl.Elem().Underlying().(*types.Basic); !ok || b.Kind() != types.Uint8 {
		return nil, false
	}
	switch v := e.(type) {
	case *ast.CompositeLit:
		var out []byte
		for _, el := range v.Elts {
			tv := pp.TypesInfo.Types[el]
			if tv.Value == nil {
				return nil, false
			}
			k, _ := constant.Int64Val(tv.Value)
			out = append(out, byte(k))
		}
		return out, true
	case *ast.CallExpr:
		if len(v.Args) == 1 {
			if tv := pp.TypesInfo.Types[v.Args[0]]; tv.Value != nil && tv.Value.Kind() == constant.String {
				return []byte(constant.StringVal(tv.Value)), true
			}
		}
	}
	return nil, false
}

func (x *Exec) globalContentFacts(ref string, bs []byte) {
	key := "globalbytes:" + ref
	if x.vc.S.decl[key] || x.vc.baseMem == "" {
		return
	}
	x.vc.S.decl[key] = true
	for i, b := range bs {
		x.vc.S.raw(fmt.Sprintf("(assert (= (%s %s %d) %d))", x.vc.baseMem, ref, i, b))
	}
}
