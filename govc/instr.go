package main

import (
	"fmt"
	"go/token"
	"go/types"
	"strings"

	"golang.org/x/tools/go/ssa"
)

// guard: the instruction panics unless cond holds.  Under `nopanic` this is an
// obligation; in every case execution continues only when cond holds.
func (x *Exec) guard(fr *frame, ins ssa.Instruction, r string, cond string, what string) string {
	if cond == "true" {
		return r
	}
	if what == "nil-deref" && strings.HasPrefix(cond, "(not (= ") && strings.HasSuffix(cond, " 0))") {
		if x.nonNil[cond[8:len(cond)-4]] {
			return r
		}
	}
	if x.checkPanics && fr.top {
		x.nPanicObl++
		x.vc.oblige(fmt.Sprintf("%s#nopanic:%s.%d", x.eng.fnKey(fr.fn), what, x.nPanicObl), "nopanic", r, cond, x.eng.pos(ins.Pos()))
	}
	return x.vc.S.def("R", bc(and(r, cond))).T
}

func deref(t types.Type) types.Type {
	if p, ok := t.Underlying().(*types.Pointer); ok {
		return p.Elem()
	}
	return t
}

// instr executes one non-phi instruction; returns the refined reach and
// whether control continues in this block.
func (x *Exec) instr(fr *frame, ins ssa.Instruction, st *State, r string) (string, bool) {
	vc := x.vc
	x.curFrame = fr
	ls := vc.ls
	switch i := ins.(type) {
	case *ssa.DebugRef:
		if id, ok := i.Expr.(interface{ String() string }); ok {
			_ = id
		}
		if obj := i.Object(); obj != nil {
			fr.dbg[obj.Name()] = append(fr.dbg[obj.Name()], dbgRef{blk: i.Block(), idx: instrIndex(i), val: i.X, isAddr: i.IsAddr})
		}
	case *ssa.Alloc:
		ref := vc.alloc(st, i.Name())
		vc.noteAlloc(ref, deref(i.Type()))
		x.setVal(fr, i, Val{ic(ref), ic("0")})
	case *ssa.MakeSlice:
		ln, cp := x.val(fr, i.Len)[0].T, x.val(fr, i.Cap)[0].T
		r = x.guard(fr, ins, r, and(sx("<=", "0", ln), sx("<=", ln, cp)), "makeslice")
		ref := vc.alloc(st, i.Name())
		vc.noteAlloc(ref, i.Type().Underlying().(*types.Slice).Elem())
		x.setVal(fr, i, Val{ic(ref), ic("0"), ic(ln), ic(cp)})
	case *ssa.MakeMap:
		ref := vc.alloc(st, i.Name())
		fam := vc.mapFamily(i.Type().Underlying().(*types.Map))
		ver := fam.cur(vc, st)
		// a fresh map is empty: express by a fact on the current version
		decl, names := fam.params()
		_ = decl
		var qs []string
		for _, n := range names[1:] {
			qs = append(qs, "("+n+" Int)")
		}
		if len(qs) > 0 {
			vc.S.fact(r, fmt.Sprintf("(forall (%s) (not %s))", joinNames(qs), sx(fam.hasFn(ver), append([]string{ref}, names[1:]...)...)))
		}
		x.setVal(fr, i, Val{ic(ref)})
	case *ssa.MakeChan:
		ref := vc.alloc(st, i.Name())
		x.setVal(fr, i, Val{ic(ref)})
	case *ssa.MakeClosure:
		ref := vc.alloc(st, i.Name())
		off := 0
		for _, b := range i.Bindings {
			bv := x.val(fr, b)
			vc.escape(bv)
			vc.store(st, ref, itoa(int64(off)), bv)
			off += len(bv)
		}
		x.setVal(fr, i, Val{ic(ref)})
	case *ssa.MakeInterface:
		vc.escape(x.val(fr, i.X))
		x.setVal(fr, i, x.makeIface(st, i.X.Type(), x.val(fr, i.X)))
	case *ssa.FieldAddr:
		p := x.val(fr, i.X)
		r = x.guard(fr, ins, r, not(eq(p[0].T, "0")), "nil-deref")
		stt := deref(i.X.Type()).Underlying().(*types.Struct)
		x.setVal(fr, i, Val{p[0], ic(add(p[1].T, itoa(int64(ls.fieldOff(stt, i.Field)))))})
	case *ssa.Field:
		v := x.val(fr, i.X)
		stt := i.X.Type().Underlying().(*types.Struct)
		off := ls.fieldOff(stt, i.Field)
		x.setVal(fr, i, v[off:off+ls.size(stt.Field(i.Field).Type())])
	case *ssa.IndexAddr:
		idx := x.val(fr, i.Index)[0].T
		base := x.val(fr, i.X)
		switch t := i.X.Type().Underlying().(type) {
		case *types.Slice:
			r = x.guard(fr, ins, r, and(sx("<=", "0", idx), sx("<", idx, base[2].T)), "index")
			es := ls.size(t.Elem())
			x.setVal(fr, i, Val{base[0], ic(add(base[1].T, mulc(idx, es)))})
			if es > 1 {
				x.instantiateAt(idx)
			}
		case *types.Pointer: // *[N]T
			arr := t.Elem().Underlying().(*types.Array)
			r = x.guard(fr, ins, r, not(eq(base[0].T, "0")), "nil-deref")
			r = x.guard(fr, ins, r, and(sx("<=", "0", idx), sx("<", idx, itoa(arr.Len()))), "index")
			es := ls.size(arr.Elem())
			x.setVal(fr, i, Val{base[0], ic(add(base[1].T, mulc(idx, es)))})
		default:
			panic(unsupported("IndexAddr on " + typeStr(i.X.Type())))
		}
	case *ssa.Index:
		idx := x.val(fr, i.Index)[0].T
		base := x.val(fr, i.X)
		switch t := i.X.Type().Underlying().(type) {
		case *types.Array:
			r = x.guard(fr, ins, r, and(sx("<=", "0", idx), sx("<", idx, itoa(t.Len()))), "index")
			x.setVal(fr, i, selectCells(base, idx, int(t.Len()), ls.size(t.Elem())))
		case *types.Basic: // string
			s := base[0].T
			r = x.guard(fr, ins, r, and(sx("<=", "0", idx), sx("<", idx, sx("strlen", s))), "index")
			x.setVal(fr, i, Val{ic(sx("strat", s, idx))})
		default:
			panic(unsupported("Index on " + typeStr(i.X.Type())))
		}
	case *ssa.Slice:
		r = x.slice(fr, i, st, r)
	case *ssa.SliceToArrayPointer:
		s := x.val(fr, i.X)
		n := deref(i.Type()).Underlying().(*types.Array).Len()
		r = x.guard(fr, ins, r, sx(">=", s[2].T, itoa(n)), "slice-to-array")
		x.setVal(fr, i, Val{s[0], s[1]})
	case *ssa.Store:
		if _, isFA := i.Addr.(*ssa.FieldAddr); isFA {
			x.guardedAccess(fr, i, i.Addr, st, r, true)
		}
		if fa, isFA := i.Addr.(*ssa.FieldAddr); isFA && fr.top && fr.c != nil {
			x.storeAsserts(fr, i, fa, st, r)
		}
		p := x.val(fr, i.Addr)
		r = x.guard(fr, ins, r, not(eq(p[0].T, "0")), "nil-deref")
		memBefore := st.Mem
		vc.escape(x.val(fr, i.Val))
		vc.store(st, p[0].T, p[1].T, x.val(fr, i.Val))
		if x.trace != nil {
			x.trace.stores = append(x.trace.stores, &StoreSite{Instr: i, Reach: r, Fn: fr.fn, Ref: p[0].T, Off: p[1].T, MemBefore: memBefore})
		}
	case *ssa.UnOp:
		r = x.unop(fr, i, st, r)
	case *ssa.BinOp:
		r = x.binop(fr, i, st, r)
	case *ssa.Convert:
		r = x.convert(fr, i, st, r)
	case *ssa.ChangeType:
		x.setVal(fr, i, x.val(fr, i.X))
	case *ssa.MultiConvert:
		x.setVal(fr, i, x.havocVal(i.Type(), st, r, i.Name()))
	case *ssa.ChangeInterface:
		x.setVal(fr, i, x.val(fr, i.X))
	case *ssa.TypeAssert:
		r = x.typeAssert(fr, i, st, r)
	case *ssa.Extract:
		tp := i.Tuple.Type().(*types.Tuple)
		off := ls.tupleOff(tp, i.Index)
		v := x.val(fr, i.Tuple)
		x.setVal(fr, i, v[off:off+ls.size(tp.At(i.Index).Type())])
	case *ssa.Call:
		var res Val
		res, r = x.call(fr, i, st, r)
		if res != nil || ls.size(i.Type()) == 0 {
			x.setVal(fr, i, res)
		}
	case *ssa.Go:
		x.goStmt(fr, i, st, r)
	case *ssa.Defer:
		fr.defers = append(fr.defers, deferred{call: i, reach: r})
	case *ssa.RunDefers:
		for k := len(fr.defers) - 1; k >= 0; k-- {
			d := fr.defers[k]
			_, _ = x.callCommon(fr, d.call, &d.call.Call, st, and(r, d.reach), true)
		}
	case *ssa.Lookup:
		x.guardedAccess(fr, i, i.X, st, r, false)
		r = x.lookup(fr, i, st, r)
	case *ssa.MapUpdate:
		x.guardedAccess(fr, i, i.Map, st, r, true)
		m := x.val(fr, i.Map)[0].T
		r = x.guard(fr, ins, r, not(eq(m, "0")), "nil-map")
		fam := vc.mapFamily(i.Map.Type().Underlying().(*types.Map))
		vc.escape(x.val(fr, i.Value))
		vc.escape(x.val(fr, i.Key))
		fam.update(vc, st, m, x.val(fr, i.Key), x.val(fr, i.Value), true)
		if x.trace != nil {
			x.trace.mapUpdates = append(x.trace.mapUpdates, &MapUpdateSite{Instr: i, Reach: r, Fn: fr.fn})
		}
	case *ssa.Range:
		x.setVal(fr, i, Val{ic(vc.S.freshConst("iter", false))})
		x.rangeInit(fr, i, st, r)
	case *ssa.Next:
		if rg, ok := i.Iter.(*ssa.Range); ok {
			x.guardedAccess(fr, i, rg.X, st, r, false)
		}
		x.next(fr, i, st, r)
	case *ssa.Send:
		vc.escape(x.val(fr, i.X))
		if x.trace != nil {
			x.trace.sends = append(x.trace.sends, &SendSite{Instr: i, Reach: r, Fn: fr.fn, Val: x.val(fr, i.X), Chan: x.val(fr, i.Chan)})
		}
		g := "sent"
		st.Ghost[g] = vc.S.def("g_sent", ic(add(ghost(st, g), "1"))).T
	case *ssa.Select:
		x.setVal(fr, i, x.havocVal(i.Type(), st, r, i.Name()))
	case *ssa.If, *ssa.Jump:
		return r, true
	case *ssa.Return:
		var vs []Val
		for _, rv := range i.Results {
			vs = append(vs, x.val(fr, rv))
			vc.escape(x.val(fr, rv))
		}
		fr.rets = append(fr.rets, retSite{reach: r, vals: vs, st: st.clone(), pos: i.Pos(), mark: vc.S.mark()})
		return r, false
	case *ssa.Panic:
		if x.checkPanics && fr.top {
			x.nPanicObl++
			vc.oblige(fmt.Sprintf("%s#nopanic:explicit-panic.%d", x.eng.fnKey(fr.fn), x.nPanicObl), "nopanic", r, "false", x.eng.pos(i.Pos()))
		}
		if x.trace != nil {
			x.trace.panics = append(x.trace.panics, &PanicSite{Reach: r, Fn: fr.fn, Pos: i.Pos()})
		}
		return r, false
	default:
		panic(unsupported(fmt.Sprintf("instruction %T in %s", ins, fr.fn)))
	}
	return r, true
}

func ghost(st *State, k string) string {
	if v, ok := st.Ghost[k]; ok {
		return v
	}
	return "0"
}

func mulc(idx string, k int) string {
	if k == 1 {
		return idx
	}
	if k == 0 {
		return "0"
	}
	return sx("*", idx, itoa(int64(k)))
}

// selectCells picks element idx (symbolic) from an array value.
func selectCells(arr Val, idx string, n, es int) Val {
	out := make(Val, es)
	for c := 0; c < es; c++ {
		t := arr[(n-1)*es+c].T
		for k := n - 2; k >= 0; k-- {
			t = ite(eq(idx, itoa(int64(k))), arr[k*es+c].T, t)
		}
		out[c] = Cell{T: t, B: arr[c].B}
	}
	return out
}

func (x *Exec) makeIface(st *State, t types.Type, v Val) Val {
	if types.IsInterface(t) {
		return v
	}
	tid := itoa(int64(x.eng.typeID(t)))
	switch len(v) {
	case 0:
		return Val{ic(tid), ic("0"), ic("0")}
	case 1:
		return Val{ic(tid), ic(b2i(v[0])), ic("0")}
	case 2:
		return Val{ic(tid), ic(b2i(v[0])), ic(b2i(v[1]))}
	}
	ref := x.vc.alloc(st, "box")
	x.vc.store(st, ref, "0", v)
	return Val{ic(tid), ic(ref), ic("0")}
}

func (x *Exec) unboxIface(st *State, t types.Type, v Val) Val {
	l := x.vc.ls.of(t)
	mk := func(i int, term string) Cell {
		if l.cells[i].kind == kBool {
			return bc(i2b(term))
		}
		return ic(term)
	}
	switch len(l.cells) {
	case 0:
		return Val{}
	case 1:
		return Val{mk(0, v[1].T)}
	case 2:
		return Val{mk(0, v[1].T), mk(1, v[2].T)}
	}
	return x.vc.load(st, l, v[1].T, "0")
}

func (x *Exec) havocVal(t types.Type, st *State, r string, name string) Val {
	l := x.vc.ls.of(t)
	v := make(Val, len(l.cells))
	for i, ci := range l.cells {
		v[i] = Cell{T: x.vc.S.freshConst("h_"+name, ci.kind == kBool), B: ci.kind == kBool}
	}
	x.typeFacts(r, t, v, st)
	// a ghost object no callee knows about (the parsed request) is never what a call returns
	for _, g := range x.vc.stable {
		if g == "REQ" {
			for i, ci := range l.cells {
				if ci.kind == kRef {
					x.vc.S.raw("(assert " + not(eq(v[i].T, "REQ")) + ")")
					x.vc.markDistinct(v[i].T, "REQ")
				}
			}
		}
	}
	return v
}

func (x *Exec) slice(fr *frame, i *ssa.Slice, st *State, r string) string {
	ls := x.vc.ls
	base := x.val(fr, i.X)
	get := func(v ssa.Value, def string) string {
		if v == nil {
			return def
		}
		return x.val(fr, v)[0].T
	}
	switch t := i.X.Type().Underlying().(type) {
	case *types.Slice:
		lo := get(i.Low, "0")
		hi := get(i.High, base[2].T)
		mx := get(i.Max, base[3].T)
		r = x.guard(fr, i, r, and(sx("<=", "0", lo), sx("<=", lo, hi), sx("<=", hi, mx), sx("<=", mx, base[3].T)), "slice")
		es := ls.size(t.Elem())
		// Go keeps a nil slice nil for s[0:0]
		x.setVal(fr, i, Val{base[0], ic(add(base[1].T, mulc(lo, es))), ic(sub(hi, lo)), ic(sub(mx, lo))})
	case *types.Pointer: // *[N]T
		arr := t.Elem().Underlying().(*types.Array)
		n := itoa(arr.Len())
		lo := get(i.Low, "0")
		hi := get(i.High, n)
		mx := get(i.Max, n)
		r = x.guard(fr, i, r, not(eq(base[0].T, "0")), "nil-deref")
		r = x.guard(fr, i, r, and(sx("<=", "0", lo), sx("<=", lo, hi), sx("<=", hi, mx), sx("<=", mx, n)), "slice")
		es := ls.size(arr.Elem())
		x.setVal(fr, i, Val{base[0], ic(add(base[1].T, mulc(lo, es))), ic(sub(hi, lo)), ic(sub(mx, lo))})
	case *types.Basic: // string
		s := base[0].T
		lo := get(i.Low, "0")
		hi := get(i.High, sx("strlen", s))
		r = x.guard(fr, i, r, and(sx("<=", "0", lo), sx("<=", lo, hi), sx("<=", hi, sx("strlen", s))), "slice")
		n := x.vc.S.freshConst("substr", false)
		x.vc.S.fact(r, eq(sx("strlen", n), sub(hi, lo)))
		x.vc.S.fact(r, fmt.Sprintf("(forall ((i Int)) (! (=> (and (<= 0 i) (< i %s)) (= (strat %s i) (strat %s (+ %s i)))) :pattern ((strat %s i))))", sub(hi, lo), n, s, lo, n))
		x.vc.S.fact(r, implies(and(eq(lo, "0"), eq(hi, sx("strlen", s))), eq(n, s)))
		x.setVal(fr, i, Val{ic(n)})
	default:
		panic(unsupported("Slice on " + typeStr(i.X.Type())))
	}
	return r
}

func (x *Exec) unop(fr *frame, i *ssa.UnOp, st *State, r string) string {
	v := x.val(fr, i.X)
	switch i.Op {
	case token.MUL: // load
		if _, isFA := i.X.(*ssa.FieldAddr); isFA {
			x.guardedAccess(fr, i, i.X, st, r, false)
		}
		r = x.guard(fr, i, r, not(eq(v[0].T, "0")), "nil-deref")
		l := x.vc.ls.of(i.Type())
		var res Val
		if g, ok := i.X.(*ssa.Global); ok {
			if g.Pkg != nil && g.Pkg.Pkg.Path() == "io" && g.Name() == "EOF" {
				res = x.eofVal(st)
			} else if gv, ok := x.globalConst(g); ok {
				res = gv
			}
		}
		if res == nil {
			res = x.vc.load(st, l, v[0].T, v[1].T)
			res = x.vc.S.defVal(i.Name()+"_ld", res)
			x.typeFacts(r, i.Type(), res, st)
		}
		x.setVal(fr, i, res)
	case token.NOT:
		x.setVal(fr, i, Val{bc(not(v[0].T))})
	case token.SUB:
		x.setVal(fr, i, Val{ic(x.wrap(i.Type(), sx("-", "0", v[0].T)))})
	case token.XOR:
		// ^x = -x-1 (signed) or 2^n-1-x (unsigned)
		b, _ := i.Type().Underlying().(*types.Basic)
		bits, signed, _ := intBits(b)
		if signed {
			x.setVal(fr, i, Val{ic(sx("-", sx("-", "0", v[0].T), "1"))})
		} else {
			x.setVal(fr, i, Val{ic(sx("-", sub(pow2(bits), "1"), v[0].T))})
		}
	case token.ARROW:
		x.setVal(fr, i, x.havocVal(i.Type(), st, r, i.Name()))
		if x.trace != nil {
			x.trace.recvs = append(x.trace.recvs, &RecvSite{Instr: i, Reach: r, Fn: fr.fn})
		}
	default:
		panic(unsupported("unop " + i.Op.String()))
	}
	return r
}

func (x *Exec) typeAssert(fr *frame, i *ssa.TypeAssert, st *State, r string) string {
	v := x.val(fr, i.X)
	var ok string
	var res Val
	if types.IsInterface(i.AssertedType) {
		okc := x.vc.S.freshConst("assert_ok", true)
		x.vc.S.fact(r, implies(okc, not(eq(v[0].T, "0"))))
		ok = okc
		res = v
	} else {
		ok = eq(v[0].T, itoa(int64(x.eng.typeID(i.AssertedType))))
		res = x.unboxIface(st, i.AssertedType, v)
	}
	if i.CommaOk {
		// zero value when !ok
		z := zeroVal(x.vc.ls.of(i.AssertedType))
		out := make(Val, 0, len(res)+1)
		for k := range res {
			out = append(out, Cell{T: ite(ok, res[k].T, z[k].T), B: res[k].B})
		}
		out = append(out, bc(ok))
		x.setVal(fr, i, out)
		return r
	}
	r = x.guard(fr, i, r, ok, "type-assert")
	x.setVal(fr, i, res)
	return r
}

func (x *Exec) lookup(fr *frame, i *ssa.Lookup, st *State, r string) string {
	if _, isStr := i.X.Type().Underlying().(*types.Basic); isStr {
		s := x.val(fr, i.X)[0].T
		idx := x.val(fr, i.Index)[0].T
		r = x.guard(fr, i, r, and(sx("<=", "0", idx), sx("<", idx, sx("strlen", s))), "index")
		x.setVal(fr, i, Val{ic(sx("strat", s, idx))})
		return r
	}
	mt := i.X.Type().Underlying().(*types.Map)
	fam := x.vc.mapFamily(mt)
	m := x.val(fr, i.X)[0].T
	k := x.val(fr, i.Index)
	ver := fam.cur(x.vc, st)
	has := and(not(eq(m, "0")), fam.has(ver, m, k))
	got := fam.get(ver, m, k)
	z := zeroVal(fam.vl)
	out := make(Val, 0, len(got)+1)
	for j := range got {
		out = append(out, Cell{T: ite(has, got[j].T, z[j].T), B: got[j].B})
	}
	out = x.vc.S.defVal(i.Name()+"_lk", out)
	x.typeFacts(r, mt.Elem(), out, st)
	if i.CommaOk {
		out = append(out, bc(has))
	}
	x.setVal(fr, i, out)
	return r
}

// range over map / string: an iterator whose Next yields unconstrained entries
// that are present in the map (the order is unspecified by the language).
func (x *Exec) rangeInit(fr *frame, i *ssa.Range, st *State, r string) {}

func (x *Exec) next(fr *frame, i *ssa.Next, st *State, r string) {
	rng := i.Iter.(*ssa.Range)
	tp := i.Type().(*types.Tuple)
	ok := x.vc.S.freshConst("next_ok", true)
	out := Val{bc(ok)}
	if i.IsString {
		out = append(out, x.havocVal(tp.At(1).Type(), st, r, "k")...)
		out = append(out, x.havocVal(tp.At(2).Type(), st, r, "v")...)
		x.setVal(fr, i, out)
		return
	}
	mt := rng.X.Type().Underlying().(*types.Map)
	fam := x.vc.mapFamily(mt)
	m := x.val(fr, rng.X)[0].T
	ver := fam.cur(x.vc, st)
	k := x.havocVal(mt.Key(), st, r, "k")
	x.vc.S.fact(r, implies(ok, and(not(eq(m, "0")), fam.has(ver, m, k))))
	v := x.vc.S.defVal("nv", fam.get(ver, m, k))
	x.typeFacts(r, mt.Elem(), v, st)
	// key / value slots may be typed invalid when unused
	if x.vc.ls.size(tp.At(1).Type()) == len(k) {
		out = append(out, k...)
	} else {
		out = append(out, zeroVal(x.vc.ls.of(tp.At(1).Type()))...)
	}
	if x.vc.ls.size(tp.At(2).Type()) == len(v) {
		out = append(out, v...)
	} else {
		out = append(out, zeroVal(x.vc.ls.of(tp.At(2).Type()))...)
	}
	x.setVal(fr, i, out)
}

// globalConst returns the value of a package-level variable that is
// initialised from constants and never written outside init.
func (x *Exec) globalConst(g *ssa.Global) (Val, bool) {
	return x.eng.globalInit(x, g)
}

// guardedAccess: `guarded_by <mutex field>: <field>, ...` on the top-level contract makes every
// access to the named fields of the receiver an obligation: the mutex is held at that point.
func (x *Exec) guardedAccess(fr *frame, ins ssa.Instruction, v ssa.Value, st *State, r string, write bool) {
	if !fr.top || fr.c == nil || len(fr.c.Raw["guarded_by"]) == 0 || len(fr.fn.Params) == 0 {
		return
	}
	base, field := fieldOrigin(v)
	if base == nil {
		return
	}
	// a field of the receiver, or (listed as Type.field) a field of an object of that type, which
	// the method reaches through the guarded structure
	onRecv := base == ssa.Value(fr.fn.Params[0])
	tname := ""
	if nt, ok := deref(base.Type()).(*types.Named); ok {
		tname = nt.Obj().Name()
	}
	for _, g := range fr.c.Raw["guarded_by"] {
		k := strings.Index(g, ":")
		if k < 0 {
			continue
		}
		mu := strings.TrimSpace(g[:k])
		if j := strings.LastIndex(mu, "."); j >= 0 {
			mu = mu[j+1:]
		}
		for _, f := range strings.Split(g[k+1:], ",") {
			f = strings.TrimSpace(f)
			ftype := ""
			if j := strings.LastIndex(f, "."); j >= 0 {
				ftype, f = f[:j], f[j+1:]
			}
			if f != field {
				continue
			}
			if ftype == "" || ftype == fr.c.Params[0] {
				if !onRecv {
					continue
				}
			} else if ftype != tname {
				continue
			}
			recv := x.val(fr, fr.fn.Params[0])
			off, _ := x.fieldAt(fr.fn.Params[0].Type(), mu)
			key := lockKey(x.vc, Val{recv[0], ic(add(recv[1].T, itoa(int64(off))))})
			x.nGuarded++
			// a write needs the lock exclusively (1); a read may hold it shared (2, RLock)
			cond := eq(ghost(st, key), "1")
			if !write {
				cond = or(cond, eq(ghost(st, key), "2"))
			}
			x.vc.oblige(fmt.Sprintf("%s#guarded:%s-under-%s.%d", x.eng.fnKey(fr.fn), field, mu, x.nGuarded), "guarded", r, cond, x.eng.pos(ins.Pos()))
		}
	}
}

// fieldOrigin: v is (a load of) base.field
func fieldOrigin(v ssa.Value) (ssa.Value, string) {
	if u, ok := v.(*ssa.UnOp); ok {
		v = u.X
	}
	fa, ok := v.(*ssa.FieldAddr)
	if !ok {
		return nil, ""
	}
	st, ok := deref(fa.X.Type()).Underlying().(*types.Struct)
	if !ok {
		return nil, ""
	}
	return fa.X, st.Field(fa.Field).Name()
}

func instrIndex(ins ssa.Instruction) int {
	for k, x := range ins.Block().Instrs {
		if x == ins {
			return k
		}
	}
	return 0
}

// instantiateAt states the instance at index idx of every quantified hypothesis registered by the
// contract (a `forall` over the elements of a slice in a precondition).  The solvers do not find
// these instances themselves: the element address is off + idx*size + cell, and after arithmetic
// normalisation no trigger matches it.  Instances of an assumed universal formula are sound.
func (x *Exec) instantiateAt(idx string) {
	if len(x.qInst) == 0 {
		return
	}
	if x.qDone == nil {
		x.qDone = map[string]bool{}
	}
	if x.qDone[idx] || len(x.qDone) > 64 {
		return
	}
	x.qDone[idx] = true
	for _, f := range x.qInst {
		x.vc.S.raw("(assert " + f(idx) + ")")
	}
}

// storeAsserts: `before store T.f assert E` clauses of the top-level contract at a store to field f
// of a struct of type T.
func (x *Exec) storeAsserts(fr *frame, i *ssa.Store, fa *ssa.FieldAddr, st *State, r string) {
	stt, ok := deref(fa.X.Type()).Underlying().(*types.Struct)
	if !ok {
		return
	}
	tname := ""
	if nt, ok := deref(fa.X.Type()).(*types.Named); ok {
		tname = nt.Obj().Name()
	}
	what := tname + "." + stt.Field(fa.Field).Name()
	for k, sa := range fr.c.Asserts {
		if !sa.Store || sa.Callee != what {
			continue
		}
		if x.assertHits == nil {
			x.assertHits = map[int]int{}
		}
		x.assertHits[k]++
		n := x.assertHits[k]
		env := x.specEnv(fr, st, i.Block(), 0)
		env.names["target"] = svOfVal(x.val(fr, fa.X), fa.X.Type())
		env.names["val"] = svOfVal(x.val(fr, i.Val), i.Val.Type())
		x.vc.cover(fmt.Sprintf("%s#cover:store:%s#%d", x.eng.fnKey(fr.fn), what, n), r, x.eng.pos(i.Pos()))
		x.vc.oblige(fmt.Sprintf("%s#store:%s#%d.%d", x.eng.fnKey(fr.fn), what, n, k+1), "site", r, x.evalBool(env, sa.Cl.Expr), x.eng.pos(i.Pos()))
	}
}
