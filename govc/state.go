package main

// Execution state threaded through the symbolic execution: the current memory
// version, the allocation counter, map versions and ghost counters.  All of it
// is merged with ite at control-flow joins.

import (
	"fmt"
	"go/types"
	"sort"
	"strconv"
	"strings"
)

type State struct {
	Mem   string            // name of current memory function  (Int Int) -> Int
	Alloc string            // term: next unused object reference
	Maps  map[string]string // map family -> version tag
	Ghost map[string]string // ghost variable -> Int term
}

func (s State) clone() State {
	n := State{Mem: s.Mem, Alloc: s.Alloc, Maps: map[string]string{}, Ghost: map[string]string{}}
	for k, v := range s.Maps {
		n.Maps[k] = v
	}
	for k, v := range s.Ghost {
		n.Ghost[k] = v
	}
	return n
}

// VC is the verification context of one function under contract.
type allocRec struct {
	ref string
	typ types.Type // type of the allocated object (element type for slices)
}

type VC struct {
	escaped    map[string]bool // allocation results whose address has been stored, passed on or returned
	allocs     []allocRec
	Options    string // solver options placed at the head of every script of this VC
	geqMemo    map[[2]string]bool
	stable     []string // references of ghost objects that no havoc touches (mode A: the parsed request)
	baseMem    string
	nonNil     map[string]bool
	mem        map[string]*memNode // memory versions by name
	allocP     map[string][]string // alloc term -> parent alloc terms (it is >= each of them)
	bornLt     map[string]string   // reference term -> alloc term it is known to be below
	isAlloc    map[string]bool     // reference terms that are allocation results (ref == alloc term before)
	allocAfter map[string]string   // allocation result -> alloc term right after it
	distinct   map[[2]string]bool  // pairs of reference terms assumed / known different
	S          *Script
	ls         *layouts
	obls       []*Obligation
	notes      []string // abstraction report (havocked calls etc.)
	mapFams    map[string]*mapFam
}

type Obligation struct {
	Name   string
	Kind   string
	Prefix int    // number of script lines that are hypotheses for it
	Reach  string // reachability condition of the program point
	Goal   string // Bool term
	Cover  bool   // cover query: expected sat (reachability / vacuity guard)
	Pos    string
	// results
	Status   string // discharged | failed | unknown | cover-ok | cover-dead
	Solver   string
	Secs     float64
	Model    map[string]string
	Output   string
	File     string // SMT-LIB file of the query (kept while the obligation is not discharged)
	Confirm  string // thorough tier: second solver that also decided it ("" = none did in time)
	Disagree string // thorough tier: a second solver answered sat on an obligation the first one discharged
}

func (vc *VC) oblige(name, kind, reach, goal, pos string) *Obligation {
	o := &Obligation{Name: name, Kind: kind, Prefix: vc.S.mark(), Reach: reach, Goal: goal, Pos: pos}
	vc.obls = append(vc.obls, o)
	return o
}

func (vc *VC) cover(name, reach, pos string) *Obligation {
	o := &Obligation{Name: name, Kind: "cover", Prefix: vc.S.mark(), Reach: reach, Goal: "false", Cover: true, Pos: pos}
	vc.obls = append(vc.obls, o)
	return o
}

func (vc *VC) note(format string, a ...any) {
	vc.notes = append(vc.notes, fmt.Sprintf(format, a...))
}

// ---- memory ---------------------------------------------------------------

func (vc *VC) newMem(prefix string) string {
	n := vc.S.fresh(prefix)
	return n
}

// initial memory: uninterpreted
func (vc *VC) declMem(prefix string) string {
	n := vc.S.fresh(prefix)
	vc.S.raw(fmt.Sprintf("(declare-fun %s (Int Int) Int)", n))
	return n
}

func (vc *VC) defMem(body string) string {
	n := vc.S.fresh("M")
	vc.S.raw(fmt.Sprintf("(define-fun %s ((r Int) (o Int)) Int %s)", n, body))
	return n
}

// memNode: Go-side description of a memory version, used to resolve reads over
// writes to provably different objects at generation time (keeps the queries small).
type memNode struct {
	kind   int // 0 opaque, 1 store, 2 alloc (zero), 3 allocWith/copy (writes only ref), 4 merge
	conds  []string
	ins    []string
	before string // kind 5: objects older than this alloc term are unchanged (no modifies clause)
	ref    string
	off    string
	vals   Val
	parent string
}

func sel(mem, ref, off string) string { return sx(mem, ref, off) }

// splitOff normalises an offset term into base + constant.
func splitOff(t string) (string, int64) {
	var c int64
	for {
		if n, err := strconv.ParseInt(t, 10, 64); err == nil {
			return "", c + n
		}
		if strings.HasPrefix(t, "(+ ") && strings.HasSuffix(t, ")") {
			body := t[3 : len(t)-1]
			// last argument constant?
			k := strings.LastIndex(body, " ")
			if k > 0 {
				if n, err := strconv.ParseInt(body[k+1:], 10, 64); err == nil && balanced(body[:k]) {
					c += n
					t = body[:k]
					continue
				}
			}
		}
		return t, c
	}
}

// splitOffC: like splitOff, but looks through defined names.
func (vc *VC) splitOffC(t string) (string, int64) {
	var c int64
	for i := 0; i < 8; i++ {
		b, k := splitOff(t)
		c += k
		if b == "" {
			return "", c
		}
		d, ok := vc.S.alias[b]
		if !ok {
			return b, c
		}
		t = d
	}
	return t, c
}

func balanced(s string) bool {
	d := 0
	for _, ch := range s {
		if ch == '(' {
			d++
		} else if ch == ')' {
			d--
			if d < 0 {
				return false
			}
		} else if ch == ' ' && d == 0 {
			return false
		}
	}
	return d == 0
}

// allocGeq: alloc term b >= alloc term a on every path (by construction of the terms)
func (vc *VC) allocGeq(b, a string, depth int) bool {
	if a == b {
		return true
	}
	if vc.geqMemo == nil {
		vc.geqMemo = map[[2]string]bool{}
	}
	if v, ok := vc.geqMemo[[2]string{b, a}]; ok {
		return v
	}
	res := vc.allocGeq1(b, a, depth)
	vc.geqMemo[[2]string{b, a}] = res
	return res
}

func (vc *VC) allocGeq1(b, a string, depth int) bool {
	if depth > 400 {
		return false
	}
	ps, ok := vc.allocP[b]
	if !ok || len(ps) == 0 {
		return false
	}
	for _, p := range ps {
		if !vc.allocGeq(p, a, depth+1) {
			return false
		}
	}
	return true
}

// distinctRefs: the two reference terms denote different objects on every path.
func (vc *VC) canon(a string) string {
	for i := 0; i < 4; i++ {
		t, ok := vc.S.alias[a]
		if !ok {
			return a
		}
		a = t
	}
	return a
}

func (vc *VC) markDistinct(a, b string) {
	a, b = vc.canon(a), vc.canon(b)
	vc.distinct[[2]string{a, b}] = true
	vc.distinct[[2]string{b, a}] = true
}

func (vc *VC) distinctRefs(a, b string) bool {
	if a == b {
		return false
	}
	if vc.distinct[[2]string{vc.canon(a), vc.canon(b)}] {
		return true
	}
	if vc.isAlloc[a] && vc.isAlloc[b] {
		// a's value is its alloc term; the later one is >= earlier+1
		if vc.allocAfter[a] != "" && vc.allocGeq(b, vc.allocAfter[a], 0) {
			return true
		}
		if vc.allocAfter[b] != "" && vc.allocGeq(a, vc.allocAfter[b], 0) {
			return true
		}
		return false
	}
	if vc.isAlloc[a] {
		if lt, ok := vc.bornLt[b]; ok && vc.allocGeq(a, lt, 0) {
			return true
		}
	}
	if vc.isAlloc[b] {
		if lt, ok := vc.bornLt[a]; ok && vc.allocGeq(b, lt, 0) {
			return true
		}
	}
	return false
}

// read resolves one cell read against the chain of memory versions.
func (vc *VC) read(mem, ref, off string) string {
	cur := mem
	ob, oc := vc.splitOffC(off)
	for steps := 0; steps < 2000; steps++ {
		n := vc.mem[cur]
		if n == nil || n.kind == 0 {
			break
		}
		if n.kind == 7 {
			// full havoc that spares the stable ghost objects
			isStable := false
			for _, s := range vc.stable {
				if s == ref {
					isStable = true
				}
			}
			if isStable {
				cur = n.parent
				continue
			}
			break
		}
		if n.kind == 5 {
			// frame of a call / loop without modifies clause: old objects are unchanged
			lt, ok := vc.bornLt[ref]
			if !ok {
				lt, ok = vc.bornLt[vc.canon(ref)]
			}
			if ok && vc.allocGeq(n.before, lt, 0) {
				cur = n.parent
				continue
			}
			if vc.isAlloc[ref] && vc.allocAfter[ref] != "" && vc.allocGeq(n.before, vc.allocAfter[ref], 0) {
				cur = n.parent
				continue
			}
			break
		}
		if n.kind == 4 {
			rs := make([]string, len(n.ins))
			same := true
			total := 0
			for i, m := range n.ins {
				rs[i] = vc.read(m, ref, off)
				total += len(rs[i])
				if rs[i] != rs[0] {
					same = false
				}
			}
			if same {
				return rs[0]
			}
			if total > 1500 {
				break
			}
			t := rs[len(rs)-1]
			for i := len(rs) - 2; i >= 0; i-- {
				t = ite(n.conds[i], rs[i], t)
			}
			return t
		}
		if n.ref == ref {
			if n.kind == 1 {
				nb, nc := vc.splitOffC(n.off)
				if nb == ob {
					d := oc - nc
					if d >= 0 && d < int64(len(n.vals)) {
						return b2i(n.vals[d])
					}
					cur = n.parent
					continue
				}
			}
			if n.kind == 2 {
				return "0"
			}
			break
		}
		if vc.distinctRefs(ref, n.ref) {
			cur = n.parent
			continue
		}
		break
	}
	return sel(cur, ref, off)
}

// load reads the cells of layout l at (ref, off).
func (vc *VC) load(st *State, l *layout, ref, off string) Val {
	v := make(Val, len(l.cells))
	for i, ci := range l.cells {
		t := vc.read(st.Mem, ref, add(off, itoa(int64(i))))
		if ci.kind == kBool {
			v[i] = bc(i2b(t))
		} else {
			v[i] = ic(t)
		}
	}
	return v
}

// store writes v at (ref, off).
func (vc *VC) store(st *State, ref, off string, v Val) {
	if len(v) == 0 {
		return
	}
	var body string
	if len(v) == 1 {
		body = ite(and(eq("r", ref), eq("o", off)), b2i(v[0]), sel(st.Mem, "r", "o"))
	} else {
		inner := sel(st.Mem, "r", "o")
		// select by o-off
		for i := len(v) - 1; i >= 0; i-- {
			inner = ite(eq("o", add(off, itoa(int64(i)))), b2i(v[i]), inner)
		}
		cond := and(eq("r", ref), sx(">=", "o", off), sx("<", "o", add(off, itoa(int64(len(v))))))
		body = ite(cond, inner, sel(st.Mem, "r", "o"))
	}
	parent := st.Mem
	st.Mem = vc.defMem(body)
	vc.mem[st.Mem] = &memNode{kind: 1, ref: ref, off: off, vals: v, parent: parent}
}

func (vc *VC) bumpAlloc(st *State, ref string) {
	vc.isAlloc[ref] = true
	vc.nonNil[ref] = true
	old := st.Alloc
	st.Alloc = vc.S.def("alloc", ic(add(ref, "1"))).T
	vc.allocP[ref] = []string{old}
	if ref != old {
		// ref is a name for the old alloc term
		vc.allocP[ref] = []string{old}
	}
	vc.allocP[st.Alloc] = []string{ref}
	vc.allocAfter[ref] = st.Alloc
}

// alloc returns a fresh object reference whose cells are all zero.
func (vc *VC) alloc(st *State, what string) string {
	ref := vc.S.def("ref_"+what, ic(st.Alloc)).T
	if ref == st.Alloc {
		// force a distinct name so the reference has its own identity
		n := vc.S.fresh("ref_" + what)
		vc.S.raw(fmt.Sprintf("(define-fun %s () Int %s)", n, st.Alloc))
		ref = n
	}
	vc.bumpAlloc(st, ref)
	parent := st.Mem
	st.Mem = vc.defMem(ite(eq("r", ref), "0", sel(st.Mem, "r", "o")))
	vc.mem[st.Mem] = &memNode{kind: 2, ref: ref, parent: parent}
	return ref
}

// allocWith returns a fresh object whose cell o holds at(o) for 0 <= o < n and 0 elsewhere.
func (vc *VC) allocWith(st *State, what string, n string, at func(o string) string) string {
	ref := vc.S.def("ref_"+what, ic(st.Alloc)).T
	if ref == st.Alloc {
		nn := vc.S.fresh("ref_" + what)
		vc.S.raw(fmt.Sprintf("(define-fun %s () Int %s)", nn, st.Alloc))
		ref = nn
	}
	vc.bumpAlloc(st, ref)
	parent := st.Mem
	st.Mem = vc.defMem(ite(eq("r", ref), ite(and(sx("<=", "0", "o"), sx("<", "o", n)), at("o"), "0"), sel(st.Mem, "r", "o")))
	vc.mem[st.Mem] = &memNode{kind: 3, ref: ref, parent: parent}
	return ref
}

// copyCells: dst[doff .. doff+n) := src[soff .. soff+n)  (memmove semantics: reads the old memory)
func (vc *VC) copyCells(st *State, dref, doff, sref, soff, n string) {
	cond := and(eq("r", dref), sx("<=", doff, "o"), sx("<", "o", add(doff, n)))
	parent := st.Mem
	st.Mem = vc.defMem(ite(cond, sel(st.Mem, sref, add(soff, sub("o", doff))), sel(st.Mem, "r", "o")))
	vc.mem[st.Mem] = &memNode{kind: 3, ref: dref, parent: parent}
}

// havocFrame: everything allocated before `before` is kept, the rest is unconstrained.
func (vc *VC) havocFrame(st *State, before string) string {
	h := vc.declMem("Mh")
	parent := st.Mem
	keep := sx("<", "r", before)
	for _, s := range vc.stable {
		keep = or(keep, eq("r", s))
	}
	st.Mem = vc.defMem(ite(keep, sel(st.Mem, "r", "o"), sel(h, "r", "o")))
	vc.mem[st.Mem] = &memNode{kind: 5, before: before, parent: parent}
	return h
}

// havocMem replaces memory by an unconstrained one except where keep(r,o) holds.
func (vc *VC) havocMem(st *State, keep string) string {
	h := vc.declMem("Mh")
	full := keep == "" || keep == "false"
	for _, s := range vc.stable {
		keep = or(keep, eq("r", s))
	}
	if keep == "" || keep == "false" {
		st.Mem = h
		return h
	}
	parent := st.Mem
	st.Mem = vc.defMem(ite(keep, sel(st.Mem, "r", "o"), sel(h, "r", "o")))
	if full {
		vc.mem[st.Mem] = &memNode{kind: 7, parent: parent}
	}
	return h
}

// ---- joins ------------------------------------------------------------------

type incoming struct {
	cond string
	st   State
}

// mergeStates builds the state at a join from the incoming edges.
func (vc *VC) mergeStates(in []incoming) State {
	if len(in) == 1 {
		return in[0].st.clone()
	}
	out := in[len(in)-1].st.clone()
	// memory
	same := true
	for _, e := range in {
		if e.st.Mem != out.Mem {
			same = false
		}
	}
	if !same {
		body := sel(in[len(in)-1].st.Mem, "r", "o")
		for i := len(in) - 2; i >= 0; i-- {
			body = ite(in[i].cond, sel(in[i].st.Mem, "r", "o"), body)
		}
		out.Mem = vc.defMem(body)
		mn := &memNode{kind: 4}
		for _, e := range in {
			mn.conds = append(mn.conds, e.cond)
			mn.ins = append(mn.ins, e.st.Mem)
		}
		vc.mem[out.Mem] = mn
	}
	// alloc
	t := in[len(in)-1].st.Alloc
	for i := len(in) - 2; i >= 0; i-- {
		t = ite(in[i].cond, in[i].st.Alloc, t)
	}
	out.Alloc = vc.S.def("alloc", ic(t)).T
	if _, seen := vc.allocP[out.Alloc]; !seen {
		var ps []string
		for _, e := range in {
			ps = append(ps, e.st.Alloc)
		}
		vc.allocP[out.Alloc] = ps
	}
	// ghosts
	keys := map[string]bool{}
	for _, e := range in {
		for k := range e.st.Ghost {
			keys[k] = true
		}
	}
	var ks []string
	for k := range keys {
		ks = append(ks, k)
	}
	sort.Strings(ks)
	for _, k := range ks {
		g := func(s State) string {
			if v, ok := s.Ghost[k]; ok {
				return v
			}
			return "0"
		}
		t := g(in[len(in)-1].st)
		for i := len(in) - 2; i >= 0; i-- {
			t = ite(in[i].cond, g(in[i].st), t)
		}
		out.Ghost[k] = vc.S.def("g_"+k, ic(t)).T
	}
	// maps
	mk := map[string]bool{}
	for _, e := range in {
		for k := range e.st.Maps {
			mk[k] = true
		}
	}
	ks = ks[:0]
	for k := range mk {
		ks = append(ks, k)
	}
	sort.Strings(ks)
	for _, k := range ks {
		fam := vc.mapFams[k]
		for i := range in {
			fam.cur(vc, &in[i].st)
		}
		sameV := true
		for _, e := range in {
			if e.st.Maps[k] != in[0].st.Maps[k] {
				sameV = false
			}
		}
		if sameV {
			out.Maps[k] = in[0].st.Maps[k]
			continue
		}
		var conds, vers []string
		for _, e := range in {
			conds = append(conds, e.cond)
			vers = append(vers, e.st.Maps[k])
		}
		out.Maps[k] = fam.merge(vc, conds, vers)
	}
	return out
}

func joinNames(xs []string) string { return strings.Join(xs, " ") }

func (vc *VC) noteAlloc(ref string, t types.Type) {
	if t != nil {
		vc.allocs = append(vc.allocs, allocRec{ref, t})
	}
}

// typeContains: a value of type inner can be a component (at any depth, not through pointers) of a
// value of type outer.
func typeContains(outer, inner types.Type, depth int) bool {
	if types.Identical(outer, inner) {
		return true
	}
	if depth > 6 {
		return true
	}
	switch u := outer.Underlying().(type) {
	case *types.Struct:
		for i := 0; i < u.NumFields(); i++ {
			if typeContains(u.Field(i).Type(), inner, depth+1) {
				return true
			}
		}
	case *types.Array:
		return typeContains(u.Elem(), inner, depth+1)
	}
	return false
}

// escape marks every allocation whose reference occurs in the given value as escaped.
func (vc *VC) escape(v Val) {
	for _, c := range v {
		if isAtom(c.T) {
			if vc.isAlloc[c.T] {
				vc.escaped[c.T] = true
			}
			if t, ok := vc.S.alias[c.T]; ok {
				vc.escapeTerm(t)
			}
			continue
		}
		vc.escapeTerm(c.T)
	}
}

func (vc *VC) escapeTerm(t string) {
	if !strings.Contains(t, "ref_") {
		return
	}
	for a := range vc.isAlloc {
		if !vc.escaped[a] && strings.Contains(t, a) {
			vc.escaped[a] = true
		}
	}
}
