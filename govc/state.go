package main

// Execution state threaded through the symbolic execution: the current memory
// version, the allocation counter, map versions and ghost counters.  All of it
// is merged with ite at control-flow joins.

import (
	"fmt"
	"sort"
	"strings"
)

type State struct {
	Mem   string            // name of current memory function  (Int Int) -> Int
	Alloc string            // term: next unused object reference
	Maps  map[string]string // map family -> version tag
	Ghost map[string]string // ghost variable -> Int term
}

func (s State) clone() State {
	n := State{Mem: s.Mem, Alloc: s.Alloc, Maps: map[string]string{}, Ghost: map[string]string{}}
	for k, v := range s.Maps {
		n.Maps[k] = v
	}
	for k, v := range s.Ghost {
		n.Ghost[k] = v
	}
	return n
}

// VC is the verification context of one function under contract.
type VC struct {
	S       *Script
	ls      *layouts
	obls    []*Obligation
	notes   []string // abstraction report (havocked calls etc.)
	mapFams map[string]*mapFam
}

type Obligation struct {
	Name   string
	Kind   string
	Prefix int    // number of script lines that are hypotheses for it
	Reach  string // reachability condition of the program point
	Goal   string // Bool term
	Cover  bool   // cover query: expected sat (reachability / vacuity guard)
	Pos    string
	// results
	Status string // discharged | failed | unknown | cover-ok | cover-dead
	Solver string
	Secs   float64
	Model  map[string]string
	Output string
}

func (vc *VC) oblige(name, kind, reach, goal, pos string) *Obligation {
	o := &Obligation{Name: name, Kind: kind, Prefix: vc.S.mark(), Reach: reach, Goal: goal, Pos: pos}
	vc.obls = append(vc.obls, o)
	return o
}

func (vc *VC) cover(name, reach, pos string) *Obligation {
	o := &Obligation{Name: name, Kind: "cover", Prefix: vc.S.mark(), Reach: reach, Goal: "false", Cover: true, Pos: pos}
	vc.obls = append(vc.obls, o)
	return o
}

func (vc *VC) note(format string, a ...any) {
	vc.notes = append(vc.notes, fmt.Sprintf(format, a...))
}

// ---- memory ---------------------------------------------------------------

func (vc *VC) newMem(prefix string) string {
	n := vc.S.fresh(prefix)
	return n
}

// initial memory: uninterpreted
func (vc *VC) declMem(prefix string) string {
	n := vc.S.fresh(prefix)
	vc.S.raw(fmt.Sprintf("(declare-fun %s (Int Int) Int)", n))
	return n
}

func (vc *VC) defMem(body string) string {
	n := vc.S.fresh("M")
	vc.S.raw(fmt.Sprintf("(define-fun %s ((r Int) (o Int)) Int %s)", n, body))
	return n
}

func sel(mem, ref, off string) string { return sx(mem, ref, off) }

// load reads the cells of layout l at (ref, off).
func (vc *VC) load(st *State, l *layout, ref, off string) Val {
	v := make(Val, len(l.cells))
	for i, ci := range l.cells {
		t := sel(st.Mem, ref, add(off, itoa(int64(i))))
		if ci.kind == kBool {
			v[i] = bc(i2b(t))
		} else {
			v[i] = ic(t)
		}
	}
	return v
}

// store writes v at (ref, off).
func (vc *VC) store(st *State, ref, off string, v Val) {
	if len(v) == 0 {
		return
	}
	var body string
	if len(v) == 1 {
		body = ite(and(eq("r", ref), eq("o", off)), b2i(v[0]), sel(st.Mem, "r", "o"))
	} else {
		inner := sel(st.Mem, "r", "o")
		// select by o-off
		for i := len(v) - 1; i >= 0; i-- {
			inner = ite(eq("o", add(off, itoa(int64(i)))), b2i(v[i]), inner)
		}
		cond := and(eq("r", ref), sx(">=", "o", off), sx("<", "o", add(off, itoa(int64(len(v))))))
		body = ite(cond, inner, sel(st.Mem, "r", "o"))
	}
	st.Mem = vc.defMem(body)
}

// alloc returns a fresh object reference whose cells are all zero.
func (vc *VC) alloc(st *State, what string) string {
	ref := vc.S.def("ref_"+what, ic(st.Alloc)).T
	st.Alloc = vc.S.def("alloc", ic(add(ref, "1"))).T
	st.Mem = vc.defMem(ite(eq("r", ref), "0", sel(st.Mem, "r", "o")))
	return ref
}

// allocWith returns a fresh object whose cell o holds at(o) for 0 <= o < n and 0 elsewhere.
func (vc *VC) allocWith(st *State, what string, n string, at func(o string) string) string {
	ref := vc.S.def("ref_"+what, ic(st.Alloc)).T
	st.Alloc = vc.S.def("alloc", ic(add(ref, "1"))).T
	st.Mem = vc.defMem(ite(eq("r", ref), ite(and(sx("<=", "0", "o"), sx("<", "o", n)), at("o"), "0"), sel(st.Mem, "r", "o")))
	return ref
}

// copyCells: dst[doff .. doff+n) := src[soff .. soff+n)  (memmove semantics: reads the old memory)
func (vc *VC) copyCells(st *State, dref, doff, sref, soff, n string) {
	cond := and(eq("r", dref), sx("<=", doff, "o"), sx("<", "o", add(doff, n)))
	st.Mem = vc.defMem(ite(cond, sel(st.Mem, sref, add(soff, sub("o", doff))), sel(st.Mem, "r", "o")))
}

// havocMem replaces memory by an unconstrained one except where keep(r,o) holds.
func (vc *VC) havocMem(st *State, keep string) {
	h := vc.declMem("Mh")
	if keep == "" || keep == "false" {
		st.Mem = h
		return
	}
	st.Mem = vc.defMem(ite(keep, sel(st.Mem, "r", "o"), sel(h, "r", "o")))
}

// ---- joins ------------------------------------------------------------------

type incoming struct {
	cond string
	st   State
}

// mergeStates builds the state at a join from the incoming edges.
func (vc *VC) mergeStates(in []incoming) State {
	if len(in) == 1 {
		return in[0].st.clone()
	}
	out := in[len(in)-1].st.clone()
	// memory
	same := true
	for _, e := range in {
		if e.st.Mem != out.Mem {
			same = false
		}
	}
	if !same {
		body := sel(in[len(in)-1].st.Mem, "r", "o")
		for i := len(in) - 2; i >= 0; i-- {
			body = ite(in[i].cond, sel(in[i].st.Mem, "r", "o"), body)
		}
		out.Mem = vc.defMem(body)
	}
	// alloc
	t := in[len(in)-1].st.Alloc
	for i := len(in) - 2; i >= 0; i-- {
		t = ite(in[i].cond, in[i].st.Alloc, t)
	}
	out.Alloc = vc.S.def("alloc", ic(t)).T
	// ghosts
	keys := map[string]bool{}
	for _, e := range in {
		for k := range e.st.Ghost {
			keys[k] = true
		}
	}
	var ks []string
	for k := range keys {
		ks = append(ks, k)
	}
	sort.Strings(ks)
	for _, k := range ks {
		g := func(s State) string {
			if v, ok := s.Ghost[k]; ok {
				return v
			}
			return "0"
		}
		t := g(in[len(in)-1].st)
		for i := len(in) - 2; i >= 0; i-- {
			t = ite(in[i].cond, g(in[i].st), t)
		}
		out.Ghost[k] = vc.S.def("g_"+k, ic(t)).T
	}
	// maps
	mk := map[string]bool{}
	for _, e := range in {
		for k := range e.st.Maps {
			mk[k] = true
		}
	}
	ks = ks[:0]
	for k := range mk {
		ks = append(ks, k)
	}
	sort.Strings(ks)
	for _, k := range ks {
		fam := vc.mapFams[k]
		for i := range in {
			fam.cur(vc, &in[i].st)
		}
		sameV := true
		for _, e := range in {
			if e.st.Maps[k] != in[0].st.Maps[k] {
				sameV = false
			}
		}
		if sameV {
			out.Maps[k] = in[0].st.Maps[k]
			continue
		}
		var conds, vers []string
		for _, e := range in {
			conds = append(conds, e.cond)
			vers = append(vers, e.st.Maps[k])
		}
		out.Maps[k] = fam.merge(vc, conds, vers)
	}
	return out
}

func joinNames(xs []string) string { return strings.Join(xs, " ") }
