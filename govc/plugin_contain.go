package main

// Plug-in "contain" (C03): the safety clauses of "hostile input is contained", decided on the SSA of
// the current tree.
//
//	recover-first   the connection functions start with `defer dontPanic(...)`: no instruction that can
//	                panic precedes it, so every panic raised by request handling is recovered there
//	balance         a Stats "in progress"/"currently connected" increment is immediately followed by the
//	                deferred decrement of the same counter; after a successful FileTransferMgr.Get the
//	                deferred function deletes the transfer; a registered client is deregistered by a
//	                deferred Disconnect
//	unlock-deferred every Lock of a mutex reachable from the server is followed, before anything that can
//	                panic, by the deferred Unlock of the same mutex, or the locked region is call-free:
//	                a recovered panic never leaves a manager locked
//	dispatcher      the outbox dispatcher loop itself never writes to a client connection (each send runs
//	                in its own goroutine), so one stalled reader cannot wedge everybody else
//
// (Lock discipline on the shared maps is the `guarded_by` obligations of the manager contracts.)

import (
	"fmt"
	"go/constant"
	"strings"

	"golang.org/x/tools/go/ssa"
)

func init() { plugins["contain"] = pluginContain }

func firstReal(b *ssa.BasicBlock) []ssa.Instruction {
	var out []ssa.Instruction
	for _, ins := range b.Instrs {
		if _, ok := ins.(*ssa.DebugRef); ok {
			continue
		}
		out = append(out, ins)
	}
	return out
}

func calleeStr(c *ssa.CallCommon) string {
	if c.IsInvoke() {
		return canonName("(" + c.Value.Type().String() + ")." + c.Method.Name())
	}
	switch f := c.Value.(type) {
	case *ssa.Function:
		return canonName(f.String())
	case *ssa.MakeClosure:
		return canonName(f.Fn.(*ssa.Function).String())
	case *ssa.Builtin:
		return "builtin." + f.Name()
	}
	return "dynamic"
}

// closureCalls: callee names inside a deferred closure value
func closureCalls(v ssa.Value) []string {
	mc, ok := v.(*ssa.MakeClosure)
	var fn *ssa.Function
	if ok {
		fn = mc.Fn.(*ssa.Function)
	} else if f, ok := v.(*ssa.Function); ok {
		fn = f
	}
	if fn == nil {
		return nil
	}
	var out []string
	for _, b := range fn.Blocks {
		for _, ins := range b.Instrs {
			if c, ok := ins.(ssa.CallInstruction); ok {
				out = append(out, calleeStr(c.Common())+constArgs(c.Common()))
			}
		}
	}
	return out
}

func constArgs(c *ssa.CallCommon) string {
	var s []string
	for _, a := range c.Args {
		if k, ok := a.(*ssa.Const); ok && k.Value != nil && k.Value.Kind() == constant.Int {
			s = append(s, k.Value.ExactString())
		}
	}
	if len(s) == 0 {
		return ""
	}
	return "(" + strings.Join(s, ",") + ")"
}

func pluginContain(r *Run, it Item) {
	e := r.Eng
	vc := &VC{S: newScript(), ls: newLayouts(), mapFams: map[string]*mapFam{}}
	S := vc.S
	S.raw("(declare-fun structural () Bool)")
	S.raw("(assert structural)")
	yes := func(name string, ok bool, pos string) {
		g := "false"
		if ok {
			g = "true"
		}
		vc.oblige(name, "structural", "structural", g, pos)
	}
	only := it.Opts
	if only == "dispatcher" {
		containDispatcher(r, e, yes)
		vc.cover(r.Prop+"#cover:structural", "structural", "")
		r.pending = append(r.pending, pendingVC{vc, r.Prop + "_structural"})
		return
	}
	// 1. recover-first
	for _, key := range []string{"hotline.(*Server).handleNewConnection", "hotline.(*Server).handleFileTransfer"} {
		fn := e.funcs[key]
		if fn == nil {
			r.Errors = append(r.Errors, key+": not found")
			continue
		}
		r.Funcs = append(r.Funcs, key)
		ins := firstReal(fn.Blocks[0])
		ok := false
		// allowed before the defer: allocation of locals, field address + load of the logger argument
		for _, i := range ins {
			if d, isDefer := i.(*ssa.Defer); isDefer {
				ok = strings.HasSuffix(calleeStr(&d.Call), "hotline.dontPanic")
				break
			}
			switch i.(type) {
			case *ssa.Alloc, *ssa.FieldAddr, *ssa.UnOp, *ssa.Store:
				continue
			}
			break
		}
		yes(key+"#contain:recover-first", ok, e.pos(fn.Pos()))
		// the function has a recover block (deferred recover makes the panic exit a normal return)
		yes(key+"#contain:has-recover-exit", fn.Recover != nil, e.pos(fn.Pos()))
	}
	// 2. balance
	for _, key := range []string{"hotline.(*Server).handleNewConnection", "hotline.(*Server).handleFileTransfer"} {
		fn := e.funcs[key]
		if fn == nil {
			continue
		}
		n := 0
		for _, b := range fn.Blocks {
			real := firstReal(b)
			for k, ins := range real {
				c, ok := ins.(*ssa.Call)
				if !ok {
					continue
				}
				name := calleeStr(&c.Call)
				switch {
				case strings.HasSuffix(name, "(hotline.Counter).Increment"):
					// the counters that must come back down: CurrentlyConnected(0), DownloadsInProgress(1), UploadsInProgress(2)
					n++
					okDefer := false
					for _, nx := range real[k+1:] {
						if d, isDefer := nx.(*ssa.Defer); isDefer {
							if strings.HasSuffix(calleeStr(&d.Call), "(hotline.Counter).Decrement") {
								okDefer = true
							}
							for _, cn := range closureCalls(d.Call.Value) {
								if strings.Contains(cn, "(hotline.Counter).Decrement") {
									okDefer = true
								}
							}
							break
						}
						switch nx.(type) {
						case *ssa.FieldAddr, *ssa.UnOp, *ssa.MakeClosure, *ssa.Alloc, *ssa.Store, *ssa.IndexAddr, *ssa.Slice:
							continue // address computations for the deferred call
						}
						break
					}
					yes(fmt.Sprintf("%s#contain:balance:increment-then-deferred-decrement.%d", key, n), okDefer, e.pos(c.Pos()))
				}
			}
		}
		if n == 0 {
			r.Errors = append(r.Errors, key+": no Stats.Increment found")
		}
	}
	{
		key := "hotline.(*Server).handleFileTransfer"
		fn := e.funcs[key]
		okDel := false
		if fn != nil {
			for _, b := range fn.Blocks {
				for _, ins := range b.Instrs {
					if d, ok := ins.(*ssa.Defer); ok {
						for _, cn := range closureCalls(d.Call.Value) {
							if strings.Contains(cn, "(hotline.FileTransferMgr).Delete") {
								okDel = true
							}
						}
					}
				}
			}
		}
		yes(key+"#contain:balance:deferred-transfer-delete", okDel, "")
		key = "hotline.(*Server).handleNewConnection"
		fn = e.funcs[key]
		okDis := false
		if fn != nil {
			for _, b := range fn.Blocks {
				real := firstReal(b)
				for k, ins := range real {
					c, ok := ins.(*ssa.Call)
					if !ok || !strings.HasSuffix(calleeStr(&c.Call), "(hotline.ClientManager).Add") {
						continue
					}
					for _, nx := range real[k+1:] {
						if d, isDefer := nx.(*ssa.Defer); isDefer {
							okDis = strings.HasSuffix(calleeStr(&d.Call), "(*hotline.ClientConn).Disconnect")
							break
						}
						if _, isCall := nx.(ssa.CallInstruction); isCall {
							break
						}
					}
				}
			}
		}
		yes(key+"#contain:balance:register-then-deferred-disconnect", okDis, "")
	}
	// 3. unlock-deferred: in every function of the module
	nlock := 0
	var keys []string
	for k := range e.funcs {
		keys = append(keys, k)
	}
	sortStrings(keys)
	for _, k := range keys {
		fn := e.funcs[k]
		if strings.Contains(k, "Mock") || fn.Synthetic != "" {
			continue
		}
		// background goroutines that run outside any recover: a panic there ends the process whatever
		// the lock state (no client input reaches them); the clause is about recovered panics
		if strings.Contains(k, "keepaliveHandler") || strings.Contains(k, "registerWithTrackers") {
			continue
		}
		for _, b := range fn.Blocks {
			real := firstReal(b)
			for i, ins := range real {
				c, ok := ins.(*ssa.Call)
				if !ok {
					continue
				}
				name := calleeStr(&c.Call)
				if !(strings.HasSuffix(name, "sync.Mutex).Lock") || strings.HasSuffix(name, "sync.RWMutex).Lock") || strings.HasSuffix(name, "sync.RWMutex).RLock")) {
					continue
				}
				nlock++
				okU := false
				for _, nx := range real[i+1:] {
					if d, isDefer := nx.(*ssa.Defer); isDefer {
						okU = strings.Contains(calleeStr(&d.Call), "nlock")
						break
					}
					if cc, isCall := nx.(*ssa.Call); isCall {
						// an explicit Unlock with nothing but arithmetic / map access in between: panic-free region?
						if strings.Contains(calleeStr(&cc.Call), "nlock") {
							okU = lockedRegionCallFree(real[i+1:])
						}
						break
					}
				}
				yes(fmt.Sprintf("%s#contain:unlock-deferred.%d", k, nlock), okU, e.pos(c.Pos()))
			}
		}
	}
	// 3b. a lock that is released by an explicit Unlock (not a deferred one) is released on every
	// path: from the Lock, no path reaches a return, the Lock itself again (next loop iteration) or
	// another Lock of the same mutex without passing an Unlock of it.  A path that skips the Unlock
	// wedges every goroutine that needs the mutex afterwards -- other connections included.
	nrel := 0
	for _, k := range keys {
		fn := e.funcs[k]
		if strings.Contains(k, "Mock") || fn.Synthetic != "" {
			continue
		}
		for _, b := range fn.Blocks {
			for i, ins := range b.Instrs {
				c, ok := ins.(*ssa.Call)
				if !ok || !isLockCall(calleeStr(&c.Call)) || len(c.Call.Args) == 0 {
					continue
				}
				if deferredUnlockFollows(b.Instrs[i+1:]) {
					continue
				}
				nrel++
				yes(fmt.Sprintf("%s#contain:lock-released-on-every-path.%d", k, nrel), lockReleasedOnAllPaths(c, b, i), e.pos(c.Pos()))
			}
		}
	}
	// 3c. the two accept loops end only when their context is cancelled: every value they return is
	// the result of ctx.Err().  Their return value goes to log.Fatal, so returning an Accept error --
	// which a peer can provoke (descriptor exhaustion, a reset before accept) -- ends the process.
	for _, key := range []string{"hotline.(*Server).Serve", "hotline.(*Server).ServeFileTransfers"} {
		fn := e.funcs[key]
		if fn == nil {
			r.Errors = append(r.Errors, key+": not found")
			continue
		}
		r.Funcs = append(r.Funcs, key)
		ok, n := true, 0
		for _, b := range fn.Blocks {
			if b == fn.Recover || len(b.Instrs) == 0 {
				continue
			}
			ret, isRet := b.Instrs[len(b.Instrs)-1].(*ssa.Return)
			if !isRet {
				continue
			}
			n++
			good := false
			if len(ret.Results) == 1 {
				if c, isCall := ret.Results[0].(*ssa.Call); isCall && c.Call.IsInvoke() && c.Call.Method.Name() == "Err" && strings.HasSuffix(c.Call.Value.Type().String(), "context.Context") {
					good = true
				}
			}
			if !good {
				ok = false
			}
		}
		yes(key+"#contain:accept-loop-returns-only-on-cancelled-context", ok, e.pos(fn.Pos()))
		_ = n
	}
	// 4. dispatcher
	containDispatcher(r, e, yes)
	vc.cover("C03#cover:structural", "structural", "")
	r.pending = append(r.pending, pendingVC{vc, r.Prop + "_structural"})
}

// lockedRegionCallFree: between Lock and the explicit Unlock there is no call (other than the
// Unlock) and no instruction that can panic except map/field access on non-nil receivers.
func lockedRegionCallFree(rest []ssa.Instruction) bool {
	for _, ins := range rest {
		if c, ok := ins.(*ssa.Call); ok {
			if strings.Contains(calleeStr(&c.Call), "nlock") {
				return true
			}
			switch c.Call.Value.(type) {
			case *ssa.Builtin:
				continue
			}
			n := calleeStr(&c.Call)
			if strings.HasPrefix(n, "golang.org/x/time/rate.NewLimiter") {
				continue // allocation only
			}
			return false
		}
		switch ins.(type) {
		case *ssa.Panic, *ssa.TypeAssert, *ssa.Go, *ssa.Send:
			return false
		}
	}
	return false
}

func sortStrings(s []string) {
	for i := 1; i < len(s); i++ {
		for j := i; j > 0 && s[j] < s[j-1]; j-- {
			s[j], s[j-1] = s[j-1], s[j]
		}
	}
}

func isLockCall(name string) bool {
	return strings.HasSuffix(name, "sync.Mutex).Lock") || strings.HasSuffix(name, "sync.RWMutex).Lock") || strings.HasSuffix(name, "sync.RWMutex).RLock")
}

func isUnlockCall(name string) bool {
	return strings.HasSuffix(name, "sync.Mutex).Unlock") || strings.HasSuffix(name, "sync.RWMutex).Unlock") || strings.HasSuffix(name, "sync.RWMutex).RUnlock")
}

func deferredUnlockFollows(rest []ssa.Instruction) bool {
	for _, nx := range rest {
		switch d := nx.(type) {
		case *ssa.Defer:
			return isUnlockCall(calleeStr(&d.Call))
		case *ssa.FieldAddr, *ssa.UnOp, *ssa.DebugRef:
			continue
		default:
			return false
		}
	}
	return false
}

// sameMutex: the two receiver operands denote the same mutex (same value, or the same field of
// the same object).
func sameMutex(a, b ssa.Value) bool {
	if a == b {
		return true
	}
	fa, ok1 := a.(*ssa.FieldAddr)
	fb, ok2 := b.(*ssa.FieldAddr)
	if ok1 && ok2 && fa.Field == fb.Field {
		return sameMutex(fa.X, fb.X) || sameLoad(fa.X, fb.X)
	}
	return false
}

func sameLoad(a, b ssa.Value) bool {
	ua, ok1 := a.(*ssa.UnOp)
	ub, ok2 := b.(*ssa.UnOp)
	return ok1 && ok2 && ua.Op == ub.Op && (ua.X == ub.X || sameMutex(ua.X, ub.X))
}

// lockReleasedOnAllPaths walks the control flow graph from the instruction after the Lock.
func lockReleasedOnAllPaths(lock *ssa.Call, blk *ssa.BasicBlock, idx int) bool {
	mu := lock.Call.Args[0]
	seen := map[*ssa.BasicBlock]bool{}
	var walk func(b *ssa.BasicBlock, from int) bool
	walk = func(b *ssa.BasicBlock, from int) bool {
		for _, ins := range b.Instrs[from:] {
			switch c := ins.(type) {
			case *ssa.Call:
				name := calleeStr(&c.Call)
				if len(c.Call.Args) > 0 && sameMutex(c.Call.Args[0], mu) {
					if isUnlockCall(name) {
						return true
					}
					if isLockCall(name) {
						return false // locked again (the next iteration, or a second Lock) while still held
					}
				}
			case *ssa.Return, *ssa.Panic:
				return false
			}
		}
		for _, s := range b.Succs {
			if s == blk && !seen[s] {
				// back to the block of the Lock: re-entered from its start
				seen[s] = true
				if !walk(s, 0) {
					return false
				}
				continue
			}
			if seen[s] {
				continue
			}
			seen[s] = true
			if !walk(s, 0) {
				return false
			}
		}
		return true
	}
	return walk(blk, idx+1)
}

// containDispatcher: Server.processOutbox never writes to a connection itself, hands every
// transaction it receives to a goroutine of its own, and that goroutine owns its transaction: what
// the spawned closure captures is allocated in the iteration that received it (a variable shared by
// all iterations would be overwritten by the next receive while an earlier send still reads it).
func containDispatcher(r *Run, e *Engine, yes func(name string, ok bool, pos string)) {
	fn := e.funcs["hotline.(*Server).processOutbox"]
	if fn == nil {
		r.Errors = append(r.Errors, "hotline.(*Server).processOutbox: not found")
		return
	}
	clean := true
	spawns := false
	owns := true
	nspawn := 0
	for _, b := range fn.Blocks {
		for _, ins := range b.Instrs {
			switch c := ins.(type) {
			case *ssa.Call:
				n := calleeStr(&c.Call)
				if strings.Contains(n, "sendTransaction") || strings.HasSuffix(n, ").Write") || strings.HasPrefix(n, "io.Copy") {
					clean = false
				}
			case *ssa.Go:
				for _, cn := range closureCalls(c.Call.Value) {
					if strings.Contains(cn, "sendTransaction") {
						spawns = true
					}
				}
				nspawn++
				// the closure value and everything it captures is made in the block of the go statement
				// (or one on the same cycle), not before the loop
				mc, isMC := c.Call.Value.(*ssa.MakeClosure)
				if !isMC {
					owns = false
					continue
				}
				if !onCycle(mc.Block()) {
					owns = false
				}
				for _, bv := range mc.Bindings {
					switch v := bv.(type) {
					case *ssa.Parameter:
						// the server itself
					case *ssa.Alloc:
						if !onCycle(v.Block()) && !holdsOnlyParameter(v) {
							owns = false
						}
					case ssa.Instruction:
						if !onCycle(v.Block()) {
							owns = false
						}
					default:
						owns = false
					}
				}
			}
		}
	}
	yes("hotline.(*Server).processOutbox#contain:dispatcher-never-writes-to-a-connection", clean, e.pos(fn.Pos()))
	yes("hotline.(*Server).processOutbox#contain:each-send-in-its-own-goroutine", spawns, e.pos(fn.Pos()))
	yes("hotline.(*Server).processOutbox#contain:spawned-send-owns-its-transaction", owns && nspawn > 0, e.pos(fn.Pos()))
	r.Funcs = append(r.Funcs, "hotline.(*Server).processOutbox")
}

// holdsOnlyParameter: a captured cell allocated before the loop that is written once, with a
// parameter of the function (the boxed receiver), and never inside the loop.
func holdsOnlyParameter(a *ssa.Alloc) bool {
	for _, ref := range *a.Referrers() {
		st, ok := ref.(*ssa.Store)
		if !ok || st.Addr != ssa.Value(a) {
			continue
		}
		if _, isParam := st.Val.(*ssa.Parameter); !isParam || onCycle(st.Block()) {
			return false
		}
	}
	return true
}
