package main

// Plug-in "privileges" (C05): for every registered transaction handler, obligations
// generated from /verif/spec/privileges.spec over the real control flow of the handler:
//
//	guard        at every effect site of class c:  path condition /\ kind  ==>  priv(cc, pi)
//	unclassified every effect site is governed by a row or explicitly ungoverned
//	no-spurious  a "not allowed" error reply is constructed only if some governed privilege
//	             of the request is missing
//	clean-denial when a "not allowed" reply is constructed nothing has been changed or sent,
//	             and that reply is what the handler returns
//	no-success   no success reply is produced while an `always` privilege is missing
//
// Authorize(recv, i) is abstracted to an uninterpreted priv(recv, i) (its own contract,
// result == bit i of the account's bitmap, is proved in mode F); the target kind is a
// free symbol observed by the code only through FileMode.IsDir/IsRegular etc.

import (
	"fmt"
	"go/constant"
	"go/types"
	"os"
	"path/filepath"
	"sort"
	"strconv"
	"strings"
	"time"

	"golang.org/x/tools/go/ssa"
)

type privRow struct {
	handler, class, kind string
	priv                 int // -1 = ungoverned
	always, batch        bool
	line                 int
}

func loadPrivSpec(path string) ([]privRow, error) {
	b, err := os.ReadFile(path)
	if err != nil {
		return nil, err
	}
	var rows []privRow
	for i, ln := range strings.Split(string(b), "\n") {
		if k := strings.Index(ln, "#"); k >= 0 {
			ln = ln[:k]
		}
		ln = strings.TrimSpace(ln)
		if ln == "" {
			continue
		}
		f := strings.Split(ln, ";")
		for j := range f {
			f[j] = strings.TrimSpace(f[j])
		}
		if len(f) < 4 {
			return nil, fmt.Errorf("%s:%d: need handler ; class ; kind ; privilege", path, i+1)
		}
		r := privRow{handler: f[0], class: f[1], kind: f[2], priv: -1, line: i + 1}
		if f[3] != "ungoverned" {
			n, err := strconv.Atoi(f[3])
			if err != nil {
				return nil, fmt.Errorf("%s:%d: privilege: %v", path, i+1, err)
			}
			r.priv = n
		}
		if len(f) > 4 {
			r.always = strings.Contains(f[4], "always")
			r.batch = strings.Contains(f[4], "batch")
		}
		rows = append(rows, r)
	}
	return rows, nil
}

// registeredHandlers: the handler functions passed to srv.HandleFunc in RegisterHandlers.
func (e *Engine) registeredHandlers() []string {
	fn := e.funcs["mobius.RegisterHandlers"]
	var out []string
	if fn == nil {
		return nil
	}
	for _, b := range fn.Blocks {
		for _, ins := range b.Instrs {
			c, ok := ins.(*ssa.Call)
			if !ok {
				continue
			}
			if !strings.HasSuffix(canonName(calleeOf(&c.Call)), ".HandleFunc") {
				continue
			}
			for _, a := range c.Call.Args {
				v := a
				if ct, ok := v.(*ssa.ChangeType); ok {
					v = ct.X
				}
				if f, ok := v.(*ssa.Function); ok {
					out = append(out, f.Name())
				}
			}
		}
	}
	sort.Strings(out)
	return out
}

func calleeOf(c *ssa.CallCommon) string {
	if c.IsInvoke() {
		return c.Method.FullName()
	}
	if f, ok := c.Value.(*ssa.Function); ok {
		return f.String()
	}
	return ""
}

// models used for mode-A handler runs
func privModel(x *Exec, fr *frame, ins ssa.CallInstruction, c *ssa.CallCommon, args []Val, st *State, r string) (Val, string) {
	x.vc.S.declFun("priv", []string{"Int", "Int", "Int"}, "Bool")
	// Read off the real Authorize: when its entry block dereferences the receiver before any branch,
	// a call that returns had a non-nil receiver (a nil one panics there, inside the handler's
	// recover).  Code after the call may rely on that -- and stops being safe if Authorize starts
	// tolerating nil.
	if fn := x.eng.funcs["hotline.(*ClientConn).Authorize"]; fn != nil && derefsReceiverInEntry(fn) {
		x.vc.S.fact(r, not(eq(args[0][0].T, "0")))
	}
	return Val{bc(sx("priv", args[0][0].T, args[0][1].T, args[1][0].T))}, r
}

// derefsReceiverInEntry: the entry block of the method loads or addresses a field of its receiver
// (so a nil receiver panics before any decision is taken).
func derefsReceiverInEntry(fn *ssa.Function) bool {
	if len(fn.Params) == 0 || len(fn.Blocks) == 0 {
		return false
	}
	recv := fn.Params[0]
	for _, ins := range fn.Blocks[0].Instrs {
		switch i := ins.(type) {
		case *ssa.FieldAddr:
			if i.X == recv {
				return true
			}
		case *ssa.UnOp:
			if i.X == recv {
				return true
			}
		}
	}
	return false
}

// getFieldModel: t.GetField(id) returns a pointer into the stable ghost object REQ that holds
// the parsed request: the same field of the same request is the same Field value during the
// whole handler invocation (handlers do not modify the request).
func getFieldModel(x *Exec, fr *frame, ins ssa.CallInstruction, c *ssa.CallCommon, args []Val, st *State, r string) (Val, string) {
	id := args[1]
	off := x.vc.S.def("reqslot", ic(sx("*", sx("+", sx("*", id[0].T, "256"), id[1].T), "16"))).T
	if !x.vc.S.decl["req-distinct"] {
		// the ghost request object is none of the handler's real inputs
		x.vc.S.decl["req-distinct"] = true
		for _, p := range []string{"p_cc_0", "p_t_0"} {
			if x.vc.S.decl[p] || true {
				x.vc.S.raw("(assert (not (= " + p + " REQ)))")
				x.vc.markDistinct(p, "REQ")
			}
		}
	}
	key := "reqfield:" + off
	if !x.vc.S.decl[key] {
		x.vc.S.decl[key] = true
		ft := deref(c.Signature().Results().At(0).Type())
		x.validFacts(x.vc.baseMem, ft, "REQ", off, "true", 1)
		// the payload of a request field is neither the requesting ClientConn object nor the request object
		doff, _ := x.fieldAt(types.NewPointer(ft), "Data")
		dref := sel(x.vc.baseMem, "REQ", add(off, itoa(int64(doff))))
		x.vc.S.raw("(assert (and (not (= " + dref + " p_cc_0)) (not (= " + dref + " REQ))))")
		x.vc.markDistinct(dref, "p_cc_0")
		x.vc.markDistinct(dref, "REQ")
	}
	return Val{ic("REQ"), ic(off)}, r
}

func kindModel(sym string) stdModel {
	return func(x *Exec, fr *frame, ins ssa.CallInstruction, c *ssa.CallCommon, args []Val, st *State, r string) (Val, string) {
		return Val{bc(sym)}, r
	}
}

func replyModel(ghostName string) stdModel {
	return func(x *Exec, fr *frame, ins ssa.CallInstruction, c *ssa.CallCommon, args []Val, st *State, r string) (Val, string) {
		res := x.opaqueCall(x.calleeName(c), c.Signature().Results(), st, r)
		st.Ghost[ghostName] = x.vc.S.def("g_"+ghostName, ic(add(ghost(st, ghostName), "1"))).T
		return res, r
	}
}

// handlerOpaque: constructor-like or read-only callees that are not looked into in mode A: their
// result is a fresh value and existing memory is unchanged.  Callees that write their receiver
// (FilePath.Write, FileResumeData.UnmarshalBinary, SetComment) must NOT be listed here: they are
// used through their contracts (modifies clause) or inlined, otherwise the code after them runs on
// a zero value and whole branches become unreachable in the model.
var handlerOpaque = map[string]bool{
	"hotline.NewField":                                   true,
	"hotline.NewTransaction":                             true,
	"hotline.EncodeString":                               true,
	"(*hotline.Field).DecodeInt":                         true,
	"(*hotline.Field).DecodeNewsPath":                    true,
	"(*hotline.Transaction).GetField":                    true,
	"hotline.GetField":                                   true,
	"(*hotline.Field).DecodeObfuscatedString":            true,
	"hotline.NewAccount":                                 true,
	"hotline.NewTime":                                    true,
	"hotline.ReadPath":                                   true,
	"hotline.NewFileWrapper":                             true,
	"(*hotline.fileWrapper).DataFile":                    true,
	"(*hotline.fileWrapper).TotalSize":                   true,
	"(*hotline.ClientConn).FileRoot":                     true,
	"(*hotline.ClientConn).NotifyOthers":                 true,
	"(*hotline.FileResumeData).BinaryMarshal":            true,
	"hotline.NewFileResumeData":                          true,
	"hotline.NewForkInfoList":                            true,
	"(*hotline.flattenedFileObject).TransferSize":        true,
	"(*hotline.FlatFileInformationFork).FriendlyType":    true,
	"(*hotline.FlatFileInformationFork).FriendlyCreator": true,
	"(*hotline.UserFlags).IsSet":                         true,
	"(*hotline.FilePath).Len":                            true,
}

func handlerOver() map[string]stdModel {
	return map[string]stdModel{
		"(*hotline.ClientConn).Authorize":   privModel,
		"(*hotline.Transaction).GetField":   getFieldModel,
		"(io/fs.FileMode).IsDir":            kindModel("K_dir"),
		"(io/fs.FileMode).IsRegular":        kindModel("K_reg"),
		"(*hotline.FilePath).IsUploadDir":   kindModel("K_upl"),
		"(*hotline.FilePath).IsDropbox":     kindModel("K_drop"),
		"(*hotline.ClientConn).NewReply":    replyModel("replies"),
		"(*hotline.ClientConn).NewErrReply": replyModel("errreplies"),
	}
}

func handlerSetup(x *Exec) {
	S := x.vc.S
	for _, k := range []string{"K_dir", "K_reg", "K_upl", "K_drop"} {
		S.declConst(k, true)
	}
	// a file-system target that exists is a directory or a regular file, not both
	// (Stat follows links; other kinds are outside the property's quantifier)
	S.raw("(assert (not (and K_dir K_reg)))")
	S.raw("(assert (or K_dir K_reg))")
	S.declFun("priv", []string{"Int", "Int", "Int"}, "Bool")
	// the parsed request lives in a ghost object that no callee writes
	S.raw(fmt.Sprintf("(define-fun REQ () Int %d)", maxGlobals-7))
	x.vc.stable = append(x.vc.stable, "REQ")
	// callees without contract do not write the requesting ClientConn object itself
	x.vc.stable = append(x.vc.stable, "p_cc_0")
	x.vc.nonNil["REQ"] = true
}

func kindTerm(kind string, tr *Trace) (string, error) {
	switch kind {
	case "-", "":
		return "true", nil
	case "dir":
		return "K_dir", nil
	case "reg":
		return "K_reg", nil
	case "dropbox":
		return "K_drop", nil
	case "outside_upload":
		return and(not("K_upl"), not("K_drop")), nil
	case "cat", "bundle":
		cs := tr.callsTo("(hotline.ThreadedNewsMgr).NewsItem")
		if len(cs) != 1 {
			return "", fmt.Errorf("kind %s: expected exactly one NewsItem lookup, found %d", kind, len(cs))
		}
		// NewsCategoryListData15.Type is the first field: category = {0,3}
		isCat := and(eq(cs[0].Res[0].T, "0"), eq(cs[0].Res[1].T, "3"))
		if kind == "cat" {
			return isCat, nil
		}
		return not(isCat), nil
	}
	return "", fmt.Errorf("unknown kind %q", kind)
}

func constStringArg(v ssa.Value) (string, bool) {
	c, ok := v.(*ssa.Const)
	if !ok || c.Value == nil || c.Value.Kind() != constant.String {
		return "", false
	}
	return constant.StringVal(c.Value), true
}

func init() {
	plugins["privileges"] = pluginPrivileges
	plugins["handler-contract"] = pluginHandlerContract
	plugins["sites"] = pluginSites
	plugins["passwords"] = pluginPasswords
}

// pluginPasswords (C15): passwords are stored only as salted hashes: in the given function every
// store to a field named Password writes the result of hotline.HashAndSalt (def-use on the SSA of
// the current tree), on every path.
func pluginPasswords(r *Run, it Item) {
	key := it.Func
	fr := r.Eng.verifyFuncOpts(key, RunOpts{Trace: true, Depth: 3, Over: handlerOver(), Opaque: handlerOpaque, Setup: handlerSetup})
	if fr.Err != "" {
		r.Errors = append(r.Errors, key+": "+fr.Err)
		return
	}
	r.Funcs = append(r.Funcs, key)
	vc := fr.VC
	vc.obls = nil
	n := 0
	for _, ss := range fr.Trace.stores {
		_, field := fieldOrigin(ss.Instr.Addr)
		if field != "Password" {
			continue
		}
		n++
		ok := "false"
		if c, isCall := ss.Instr.Val.(*ssa.Call); isCall && canonName(calleeOf(&c.Call)) == "hotline.HashAndSalt" {
			ok = "true"
		}
		vc.oblige(fmt.Sprintf("%s#password:stored-value-is-a-hash.%d", key, n), "password", ss.Reach, ok, r.Eng.pos(ss.Instr.Pos()))
	}
	vc.cover(key+"#cover:exit", fr.OutReach, "")
	r.pending = append(r.pending, pendingVC{vc, r.Prop + "_pw_" + key})
}

// ---- stream models used by the call-site plug-in (assumed contracts from package io's documentation)

// io.CopyN(dst, src, n): copies k <= n bytes; err == nil iff k == n
func ioCopyNModel(x *Exec, fr *frame, ins ssa.CallInstruction, c *ssa.CallCommon, args []Val, st *State, r string) (Val, string) {
	used("io.CopyN(dst, src, n): writes k <= n bytes to dst, returns (k, nil) iff k == n (otherwise a non-nil error)")
	res := x.opaqueCall("io.CopyN", c.Signature().Results(), st, r)
	k, n := res[0].T, args[2][0].T
	x.vc.S.fact(r, and(sx("<=", "0", k), sx("<=", k, ite(sx(">=", n, "0"), n, "0")), eq(eq(res[1].T, "0"), eq(k, ite(sx(">=", n, "0"), n, "0")))))
	gadd(x, st, "GH_WRITTEN", args[0][1].T, k)
	return res, r
}

// io.Copy(dst, src): copies until EOF on src; a nil error says nothing about how many bytes there were
func ioCopyModel(x *Exec, fr *frame, ins ssa.CallInstruction, c *ssa.CallCommon, args []Val, st *State, r string) (Val, string) {
	used("io.Copy(dst, src): writes k >= 0 bytes to dst until src reports EOF; EOF is not an error")
	res := x.opaqueCall("io.Copy", c.Signature().Results(), st, r)
	x.vc.S.fact(r, sx("<=", "0", res[0].T))
	gadd(x, st, "GH_WRITTEN", args[0][1].T, res[0].T)
	return res, r
}

// a Write on an interface-typed writer (a connection): counted
func connWriteModel(x *Exec, fr *frame, ins ssa.CallInstruction, c *ssa.CallCommon, args []Val, st *State, r string) (Val, string) {
	res := x.opaqueCall("Write", c.Signature().Results(), st, r)
	st.Ghost["connwrites"] = x.vc.S.def("g_connwrites", ic(add(ghost(st, "connwrites"), "1"))).T
	return res, r
}

func sitesOver() map[string]stdModel {
	return map[string]stdModel{"io.CopyN": ioCopyNModel, "io.Copy": ioCopyModel,
		"(io.ReadWriteCloser).Write": connWriteModel, "(io.Writer).Write": connWriteModel, "(io.ReadWriter).Write": connWriteModel}
}

// pluginSites runs a function on its own (callees are not looked into) and keeps the
// obligations of its contract: call-site assertions, postconditions over ghost stream state.
func pluginSites(r *Run, it Item) {
	key := it.Func
	if r.Eng.contracts[key] == nil {
		r.Errors = append(r.Errors, key+": no contract found for a function of the plan")
		return
	}
	fr := r.Eng.verifyFuncOpts(key, RunOpts{Trace: true, Depth: it.Depth, Over: sitesOver()})
	r.results[key] = fr
	if fr.Err != "" {
		r.Errors = append(r.Errors, key+": "+fr.Err)
		return
	}
	r.Funcs = append(r.Funcs, key)
	var keep []*Obligation
	for _, o := range fr.VC.obls {
		if o.Cover || kindOK(it.Kinds, o.Kind) {
			keep = append(keep, o)
		}
	}
	fr.VC.obls = keep
	r.pending = append(r.pending, pendingVC{fr.VC, r.Prop + "_" + key})
	r.Notes = append(r.Notes, fr.VC.notes...)
}

// pluginHandlerContract runs one handler in mode A (same abstractions as the privilege
// plug-in) and keeps the obligations generated from its own contract: loop invariants and
// `before call ... assert` site assertions.
func pluginHandlerContract(r *Run, it Item) {
	key := it.Func
	if r.Eng.contracts[key] == nil {
		r.Errors = append(r.Errors, key+": no contract found for a function of the plan")
		return
	}
	opq := map[string]bool{}
	for k, v := range handlerOpaque {
		opq[k] = v
	}
	delete(opq, "hotline.NewAccount")
	fr := r.Eng.verifyFuncOpts(key, RunOpts{Trace: true, Depth: 3, Over: handlerOver(), Opaque: opq, Setup: handlerSetup})
	r.results[key] = fr
	if fr.Err != "" {
		r.Errors = append(r.Errors, key+": "+fr.Err)
		return
	}
	r.Funcs = append(r.Funcs, key)
	var keep []*Obligation
	n := 0
	for _, o := range fr.VC.obls {
		if o.Cover || kindOK(it.Kinds, o.Kind) {
			keep = append(keep, o)
			if !o.Cover {
				n++
			}
		}
	}
	if n == 0 {
		r.Errors = append(r.Errors, key+": the contract generated no obligation (site or loop not found)")
	}
	fr.VC.obls = keep
	r.pending = append(r.pending, pendingVC{fr.VC, r.Prop + "_" + key})
	r.Notes = append(r.Notes, fr.VC.notes...)
}

func pluginPrivileges(r *Run, it Item) {
	rows, err := loadPrivSpec(filepath.Join(r.Root, "spec", "privileges.spec"))
	if err != nil {
		r.Errors = append(r.Errors, "privileges.spec: "+err.Error())
		return
	}
	byHandler := map[string][]privRow{}
	for _, row := range rows {
		byHandler[row.handler] = append(byHandler[row.handler], row)
	}
	handlers := r.Eng.registeredHandlers()
	if len(handlers) == 0 {
		r.Errors = append(r.Errors, "mobius.RegisterHandlers: no registered handlers found")
		return
	}
	r.assume("callees without contract (manager / file store interfaces, library calls) write neither the parsed request nor the fields of the requesting ClientConn object")
	r.assume("Authorize(recv, i) is abstracted to priv(recv, i): the requester's bitmap is read consistently during one handler invocation")
	r.assume("all FileMode.IsDir/IsRegular and FilePath.IsUploadDir/IsDropbox queries in one handler concern the request's target; an existing file-system target is a directory or a regular file")
	for _, h := range handlers {
		key := "mobius." + h
		hrows := byHandler[h]
		if len(hrows) == 0 {
			r.Errors = append(r.Errors, key+": registered handler has no row in privileges.spec")
			continue
		}
		tgen := time.Now()
		over := handlerOver()
		// flag words are irrelevant to the privilege obligations: keep their arithmetic out of the VCs
		havocRes := func(x *Exec, fr *frame, ins ssa.CallInstruction, c *ssa.CallCommon, args []Val, st *State, rr string) (Val, string) {
			return x.opaqueCall(x.calleeName(c), c.Signature().Results(), st, rr), rr
		}
		for _, n := range []string{"math/big.NewInt", "(*math/big.Int).Bit", "(*math/big.Int).SetBit", "(*math/big.Int).Int64"} {
			over[n] = havocRes
		}
		over["(*hotline.UserFlags).Set"] = func(x *Exec, fr *frame, ins ssa.CallInstruction, c *ssa.CallCommon, args []Val, st *State, rr string) (Val, string) {
			// writes the two bytes of the flag word
			x.vc.store(st, args[0][0].T, args[0][1].T, x.havocVal(deref(c.Args[0].Type()), st, rr, "flags"))
			return Val{}, rr
		}
		fr := r.Eng.verifyFuncOpts(key, RunOpts{Trace: true, Depth: 3, Over: over, Opaque: handlerOpaque, Setup: handlerSetup})
		r.results[key] = fr
		if os.Getenv("GOVC_TIMING") != "" {
			fmt.Fprintf(os.Stderr, "timing: gen %s %.2fs\n", key, time.Since(tgen).Seconds())
		}
		if fr.Err != "" {
			r.Errors = append(r.Errors, key+": "+fr.Err)
			continue
		}
		r.Funcs = append(r.Funcs, key)
		vc := fr.VC
		vc.obls = nil // only plug-in obligations count here
		fn := fr.Frame.fn
		cc := fr.Frame.entryVals[0]
		privOf := func(p int) string { return sx("priv", cc[0].T, cc[1].T, itoa(int64(p))) }
		rowsFor := func(class string) (gov []privRow, any bool) {
			for _, row := range hrows {
				if row.class == class || row.class == "*" {
					any = true
					if row.priv >= 0 {
						gov = append(gov, row)
					}
				}
			}
			return
		}
		batch := false
		for _, row := range hrows {
			batch = batch || row.batch
		}
		// effect sites
		for _, cs := range fr.Trace.calls {
			class := cs.Class
			if cs.Callee == "hotline.NewTransaction" {
				class = "send"
			}
			if class == "" {
				continue
			}
			gov, any := rowsFor(class)
			site := fmt.Sprintf("%s#%d", cs.Callee, cs.Ord)
			if !any {
				vc.oblige(fmt.Sprintf("%s#guard:unclassified-effect:%s:%s", key, class, site), "guard", cs.Reach, "false", r.Eng.pos(cs.Pos))
				continue
			}
			for _, row := range gov {
				kt, err := kindTerm(row.kind, fr.Trace)
				if err != nil {
					r.Errors = append(r.Errors, key+": "+err.Error())
					continue
				}
				vc.oblige(fmt.Sprintf("%s#guard:%s:%s:kind=%s:priv=%d", key, class, site, row.kind, row.priv), "guard",
					and(cs.Reach, kt), privOf(row.priv), r.Eng.pos(cs.Pos))
			}
		}
		// denial sites
		var missing []string
		for _, row := range hrows {
			if row.priv < 0 {
				continue
			}
			kt, err := kindTerm(row.kind, fr.Trace)
			if err != nil {
				continue
			}
			missing = append(missing, and(kt, not(privOf(row.priv))))
		}
		type denial struct {
			cs *CallSite
		}
		var denials []denial
		for _, cs := range fr.Trace.callsTo("(*hotline.ClientConn).NewErrReply") {
			msg, ok := denialMessage(cs.ArgVals[2])
			if !ok || !strings.Contains(msg, "allowed") {
				continue
			}
			denials = append(denials, denial{cs})
			site := fmt.Sprintf("NewErrReply#%d", cs.Ord)
			vc.oblige(fmt.Sprintf("%s#no-spurious-denial:%s", key, site), "denial", cs.Reach, or(missing...), r.Eng.pos(cs.Pos))
			if !batch {
				vc.oblige(fmt.Sprintf("%s#clean-denial:%s:nothing-changed", key, site), "denial", cs.Reach,
					and(eq(ghost(&cs.StBefore, "effects"), "0"), eq(ghost(&cs.StBefore, "sent"), "0")), r.Eng.pos(cs.Pos))
			}
		}
		// return sites
		for k, rs := range fr.Frame.rets {
			for _, d := range denials {
				// the denial that was constructed is what is returned
				same := "true"
				for ci := range rs.vals[0] {
					same = and(same, eq(rs.vals[0][ci].T, d.cs.Res[ci].T))
				}
				vc.oblige(fmt.Sprintf("%s#clean-denial:NewErrReply#%d:returned@ret%d", key, d.cs.Ord, k+1), "denial", and(rs.reach, d.cs.Reach), same, r.Eng.pos(rs.pos))
			}
			for _, row := range hrows {
				if row.priv < 0 || !row.always {
					continue
				}
				kt, err := kindTerm(row.kind, fr.Trace)
				if err != nil {
					continue
				}
				vc.oblige(fmt.Sprintf("%s#no-success-without:priv=%d:kind=%s@ret%d", key, row.priv, row.kind, k+1), "denial",
					and(rs.reach, sx(">", ghost(&rs.st, "replies"), "0"), kt), privOf(row.priv), r.Eng.pos(rs.pos))
			}
		}
		// the handler must be able to return (vacuity guard)
		vc.cover(key+"#cover:exit", fr.OutReach, "")
		_ = fn
		r.pending = append(r.pending, pendingVC{vc, r.Prop + "_" + key})
		r.Notes = append(r.Notes, vc.notes...)
	}
}

// denialMessage: the constant message of an error reply, also when it is the format string of fmt.Sprintf
func denialMessage(v ssa.Value) (string, bool) {
	if s, ok := constStringArg(v); ok {
		return s, true
	}
	if c, ok := v.(*ssa.Call); ok && len(c.Call.Args) > 0 {
		if f, ok := c.Call.Value.(*ssa.Function); ok && f.String() == "fmt.Sprintf" {
			return constStringArg(c.Call.Args[0])
		}
	}
	return "", false
}
