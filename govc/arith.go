package main

import (
	"fmt"
	"go/constant"
	"go/token"
	"go/types"

	"golang.org/x/tools/go/ssa"
)

// wrap reduces a mathematical result into the range of integer type t.
// 64-bit types are treated as mathematical integers (stated assumption).
func (x *Exec) wrap(t types.Type, term string) string {
	b, ok := t.Underlying().(*types.Basic)
	if !ok {
		return term
	}
	bits, signed, ok := intBits(b)
	if !ok || bits == 64 {
		return term
	}
	m := pow2(bits)
	if !signed {
		return sx("mod", term, m)
	}
	h := pow2(bits - 1)
	return sx("-", sx("mod", sx("+", term, h), m), h)
}

func isUnsigned(t types.Type) bool {
	b, ok := t.Underlying().(*types.Basic)
	return ok && b.Info()&types.IsUnsigned != 0
}

func isString(t types.Type) bool {
	b, ok := t.Underlying().(*types.Basic)
	return ok && b.Info()&types.IsString != 0
}

func isFloat(t types.Type) bool {
	b, ok := t.Underlying().(*types.Basic)
	return ok && b.Info()&(types.IsFloat|types.IsComplex) != 0
}

func typeBits(t types.Type) int {
	if b, ok := t.Underlying().(*types.Basic); ok {
		if n, _, ok := intBits(b); ok {
			return n
		}
	}
	return 64
}

func (x *Exec) prelude() {
	S := x.vc.S
	S.raw("(declare-fun strlen (Int) Int)")
	S.raw("(declare-fun strat (Int Int) Int)")
	S.raw("(assert (= (strlen 0) 0))")
	S.raw("(declare-fun strcat (Int Int) Int)")
	// pow2 table
	body := "0"
	for i := 63; i >= 0; i-- {
		body = fmt.Sprintf("(ite (= i %d) %s %s)", i, pow2(i), body)
	}
	S.raw("(define-fun pow2 ((i Int)) Int " + body + ")")
	bt := "0"
	for i := 63; i >= 0; i-- {
		bt = fmt.Sprintf("(ite (= i %d) (mod (div x %s) 2) %s)", i, pow2(i), bt)
	}
	S.raw("(define-fun bitat ((x Int) (i Int)) Int " + bt + ")")
	for _, w := range []int{8, 16, 32, 64} {
		for _, op := range []string{"and", "or", "xor"} {
			var terms []string
			for i := 0; i < w; i++ {
				a := fmt.Sprintf("(mod (div x %s) 2)", pow2(i))
				b := fmt.Sprintf("(mod (div y %s) 2)", pow2(i))
				var c string
				switch op {
				case "and":
					c = fmt.Sprintf("(and (= %s 1) (= %s 1))", a, b)
				case "or":
					c = fmt.Sprintf("(or (= %s 1) (= %s 1))", a, b)
				case "xor":
					c = fmt.Sprintf("(not (= %s %s))", a, b)
				}
				terms = append(terms, fmt.Sprintf("(ite %s %s 0)", c, pow2(i)))
			}
			S.raw(fmt.Sprintf("(define-fun bv%s%d ((x Int) (y Int)) Int (+ %s))", op, w, joinNames(terms)))
		}
	}
	S.raw("(define-fun tquo ((a Int) (b Int)) Int (ite (>= a 0) (ite (> b 0) (div a b) (- (div a (- b)))) (ite (> b 0) (- (div (- a) b)) (div (- a) (- b)))))")
	S.raw("(define-fun trem ((a Int) (b Int)) Int (- a (* b (tquo a b))))")
}

func constIntOf(v ssa.Value) (int64, bool) {
	c, ok := v.(*ssa.Const)
	if !ok || c.Value == nil {
		return 0, false
	}
	if !types.IsInterface(c.Type()) {
		if b, ok := c.Type().Underlying().(*types.Basic); ok && b.Info()&types.IsInteger != 0 {
			return c.Int64(), true
		}
	}
	return 0, false
}

func (x *Exec) binop(fr *frame, i *ssa.BinOp, st *State, r string) string {
	a, b := x.val(fr, i.X), x.val(fr, i.Y)
	t := i.X.Type()
	switch i.Op {
	case token.EQL, token.NEQ:
		e := x.valEq(fr, i.X, i.Y, a, b)
		if i.Op == token.NEQ {
			e = not(e)
		}
		x.setVal(fr, i, Val{bc(e)})
		return r
	case token.LSS, token.LEQ, token.GTR, token.GEQ:
		op := map[token.Token]string{token.LSS: "<", token.LEQ: "<=", token.GTR: ">", token.GEQ: ">="}[i.Op]
		if isString(t) || isFloat(t) {
			x.setVal(fr, i, Val{bc(x.vc.S.freshConst("cmp", true))})
			return r
		}
		x.setVal(fr, i, Val{bc(sx(op, a[0].T, b[0].T))})
		return r
	case token.LAND:
		x.setVal(fr, i, Val{bc(and(a[0].T, b[0].T))})
		return r
	case token.LOR:
		x.setVal(fr, i, Val{bc(or(a[0].T, b[0].T))})
		return r
	}
	if isString(t) && i.Op == token.ADD {
		s := sx("strcat", a[0].T, b[0].T)
		n := x.vc.S.def("cat", ic(s)).T
		x.vc.S.fact(r, eq(sx("strlen", n), add(sx("strlen", a[0].T), sx("strlen", b[0].T))))
		x.setVal(fr, i, Val{ic(n)})
		return r
	}
	if isFloat(t) {
		x.setVal(fr, i, Val{ic(x.vc.S.freshConst("float", false))})
		return r
	}
	if a[0].B { // bool &, |, ^ (rare)
		switch i.Op {
		case token.AND:
			x.setVal(fr, i, Val{bc(and(a[0].T, b[0].T))})
		case token.OR:
			x.setVal(fr, i, Val{bc(or(a[0].T, b[0].T))})
		default:
			x.setVal(fr, i, Val{bc(x.vc.S.freshConst("boolop", true))})
		}
		return r
	}
	A, B := a[0].T, b[0].T
	bits := typeBits(i.Type())
	var res string
	switch i.Op {
	case token.ADD:
		res = x.wrap(i.Type(), sx("+", A, B))
	case token.SUB:
		res = x.wrap(i.Type(), sx("-", A, B))
	case token.MUL:
		res = x.wrap(i.Type(), sx("*", A, B))
	case token.QUO:
		r = x.guard(fr, i, r, not(eq(B, "0")), "div-zero")
		if isUnsigned(i.Type()) {
			res = sx("div", A, B)
		} else {
			res = x.wrap(i.Type(), sx("tquo", A, B))
		}
	case token.REM:
		r = x.guard(fr, i, r, not(eq(B, "0")), "div-zero")
		if isUnsigned(i.Type()) {
			res = sx("mod", A, B)
		} else if k, ok := constIntOf(i.Y); ok && k > 0 {
			res = sx("trem", A, B)
		} else {
			res = sx("trem", A, B)
		}
	case token.SHL:
		if k, ok := constIntOf(i.Y); ok {
			if k >= int64(bits) {
				res = "0"
			} else {
				res = x.wrap64(i.Type(), sx("*", A, pow2(int(k))))
			}
		} else {
			res = x.wrap64(i.Type(), sx("*", A, sx("pow2", B)))
		}
	case token.SHR:
		if k, ok := constIntOf(i.Y); ok {
			if k >= 64 {
				res = ite(sx("<", A, "0"), "(- 1)", "0")
			} else {
				res = sx("div", A, pow2(int(k)))
			}
		} else {
			res = ite(sx(">=", B, "64"), ite(sx("<", A, "0"), "(- 1)", "0"), sx("div", A, sx("pow2", B)))
		}
	case token.AND, token.OR, token.XOR, token.AND_NOT:
		res = x.bitop(i, A, B, bits)
	default:
		panic(unsupported("binop " + i.Op.String()))
	}
	x.setVal(fr, i, Val{ic(res)})
	return r
}

// wrap64 also wraps 64-bit shifts (a shift can overflow by construction).
func (x *Exec) wrap64(t types.Type, term string) string {
	b, ok := t.Underlying().(*types.Basic)
	if !ok {
		return term
	}
	bits, signed, ok := intBits(b)
	if !ok {
		return term
	}
	if bits < 64 {
		return x.wrap(t, term)
	}
	if !signed {
		return sx("mod", term, pow2(64))
	}
	return sx("-", sx("mod", sx("+", term, pow2(63)), pow2(64)), pow2(63))
}

// oneShl recognises the operand `1 << s`.
func oneShl(v ssa.Value) (ssa.Value, bool) {
	if c, ok := v.(*ssa.Convert); ok {
		v = c.X
	}
	b, ok := v.(*ssa.BinOp)
	if !ok || b.Op != token.SHL {
		return nil, false
	}
	if k, ok := constIntOf(b.X); ok && k == 1 {
		return b.Y, true
	}
	return nil, false
}

func (x *Exec) bitop(i *ssa.BinOp, A, B string, bits int) string {
	signed := !isUnsigned(i.Type())
	// single-bit masks: x & (1<<s), x | (1<<s), x &^ (1<<s) on unsigned operands
	if !signed && x.curFrame != nil {
		for _, sw := range []bool{false, true} {
			xv, mv, xt := i.X, i.Y, A
			if sw {
				xv, mv, xt = i.Y, i.X, B
			}
			_ = xv
			if sv, ok := oneShl(mv); ok && (!sw || i.Op != token.AND_NOT) {
				sh := x.val(x.curFrame, sv)[0].T
				inRange := and(sx("<=", "0", sh), sx("<", sh, itoa(int64(bits))))
				bitv := sx("bitat", xt, sh)
				switch i.Op {
				case token.AND:
					return ite(inRange, ite(eq(bitv, "1"), sx("pow2", sh), "0"), "0")
				case token.OR:
					return ite(inRange, ite(eq(bitv, "1"), xt, sx("+", xt, sx("pow2", sh))), xt)
				case token.AND_NOT:
					return ite(inRange, ite(eq(bitv, "1"), sx("-", xt, sx("pow2", sh)), xt), xt)
				}
			}
		}
	}
	// masks of the form 2^k-1
	if i.Op == token.AND {
		if k, ok := constIntOf(i.Y); ok {
			if m := maskBits(k); m >= 0 && !signed {
				return sx("mod", A, pow2(m))
			}
			if m := maskBits(k); m >= 0 && signed {
				return sx("mod", A, pow2(m))
			}
		}
		if k, ok := constIntOf(i.X); ok {
			if m := maskBits(k); m >= 0 {
				return sx("mod", B, pow2(m))
			}
		}
	}
	w := 64
	for _, c := range []int{8, 16, 32} {
		if bits <= c {
			w = c
			break
		}
	}
	// signed operands: shift into unsigned representation
	ua, ub := A, B
	if signed {
		ua = sx("mod", A, pow2(w))
		ub = sx("mod", B, pow2(w))
	}
	var res string
	switch i.Op {
	case token.AND:
		res = sx(fmt.Sprintf("bvand%d", w), ua, ub)
	case token.OR:
		res = sx(fmt.Sprintf("bvor%d", w), ua, ub)
	case token.XOR:
		res = sx(fmt.Sprintf("bvxor%d", w), ua, ub)
	case token.AND_NOT:
		res = sx(fmt.Sprintf("bvand%d", w), ua, sx("-", sub(pow2(w), "1"), ub))
	}
	if signed {
		res = sx("-", sx("mod", sx("+", res, pow2(w-1)), pow2(w)), pow2(w-1))
	}
	return res
}

func maskBits(k int64) int {
	if k < 0 {
		return -1
	}
	for m := 0; m < 63; m++ {
		if k == (int64(1)<<uint(m))-1 {
			return m
		}
	}
	return -1
}

// valEq compares two values of the same type.
func (x *Exec) valEq(fr *frame, X, Y ssa.Value, a, b Val) string {
	t := X.Type()
	if isString(t) {
		x.strEqFacts(X, Y, a[0].T, b[0].T)
		return eq(a[0].T, b[0].T)
	}
	if _, ok := t.Underlying().(*types.Slice); ok {
		// only comparison with nil is legal
		if c, ok := Y.(*ssa.Const); ok && c.Value == nil {
			return eq(a[0].T, "0")
		}
		return eq(b[0].T, "0")
	}
	switch t.Underlying().(type) {
	case *types.Pointer, *types.Map, *types.Chan, *types.Signature:
		if c, ok := Y.(*ssa.Const); ok && c.Value == nil {
			return eq(a[0].T, "0")
		}
		if c, ok := X.(*ssa.Const); ok && c.Value == nil {
			return eq(b[0].T, "0")
		}
	}
	if types.IsInterface(t) {
		// comparison with nil: type id only
		if c, ok := Y.(*ssa.Const); ok && c.Value == nil {
			return eq(a[0].T, "0")
		}
		if c, ok := X.(*ssa.Const); ok && c.Value == nil {
			return eq(b[0].T, "0")
		}
	}
	var cs []string
	for k := range a {
		if a[k].B {
			cs = append(cs, eq(a[k].T, b[k].T))
		} else {
			cs = append(cs, eq(a[k].T, b[k].T))
		}
	}
	return and(cs...)
}

// strEqFacts: comparison against a constant string is decided by content.
func (x *Exec) strEqFacts(X, Y ssa.Value, a, b string) {
	emit := func(dyn string, c *ssa.Const) {
		if c.Value == nil {
			return
		}
		s := constantString(c)
		id := itoa(int64(x.strConst(s)))
		if len(s) > 64 {
			return
		}
		cs := []string{eq(sx("strlen", dyn), itoa(int64(len(s))))}
		for k := 0; k < len(s); k++ {
			cs = append(cs, eq(sx("strat", dyn, itoa(int64(k))), itoa(int64(s[k]))))
		}
		x.vc.S.raw("(assert (= (= " + dyn + " " + id + ") " + and(cs...) + "))")
	}
	if c, ok := Y.(*ssa.Const); ok {
		emit(a, c)
	} else if c, ok := X.(*ssa.Const); ok {
		emit(b, c)
	}
}

func (x *Exec) convert(fr *frame, i *ssa.Convert, st *State, r string) string {
	v := x.val(fr, i.X)
	from, to := i.X.Type().Underlying(), i.Type().Underlying()
	S := x.vc.S
	switch tt := to.(type) {
	case *types.Basic:
		switch {
		case tt.Info()&types.IsString != 0:
			if sl, ok := from.(*types.Slice); ok {
				if b, ok := sl.Elem().Underlying().(*types.Basic); ok && b.Kind() == types.Uint8 {
					n := S.freshConst("str", false)
					S.fact(r, eq(sx("strlen", n), v[2].T))
					S.fact(r, fmt.Sprintf("(forall ((i Int)) (! (=> (and (<= 0 i) (< i %s)) (= (strat %s i) (%s %s (+ %s i)))) :pattern ((strat %s i))))", v[2].T, n, st.Mem, v[0].T, v[1].T, n))
					x.setVal(fr, i, Val{ic(n)})
					return r
				}
			}
			if fb, ok := from.(*types.Basic); ok && fb.Info()&types.IsString != 0 {
				x.setVal(fr, i, v)
				return r
			}
			x.setVal(fr, i, x.havocVal(i.Type(), st, r, i.Name()))
			return r
		case tt.Info()&types.IsInteger != 0:
			if fb, ok := from.(*types.Basic); ok && fb.Info()&types.IsInteger != 0 {
				x.setVal(fr, i, Val{ic(x.wrap64conv(i.X.Type(), i.Type(), v[0].T))})
				return r
			}
			x.setVal(fr, i, x.havocVal(i.Type(), st, r, i.Name()))
			return r
		case tt.Kind() == types.UnsafePointer:
			x.setVal(fr, i, Val{v[0]})
			return r
		default:
			x.setVal(fr, i, x.havocVal(i.Type(), st, r, i.Name()))
			return r
		}
	case *types.Slice:
		if fb, ok := from.(*types.Basic); ok && fb.Info()&types.IsString != 0 {
			if b, ok := tt.Elem().Underlying().(*types.Basic); ok && b.Kind() == types.Uint8 {
				s := v[0].T
				ref := x.vc.allocWith(st, "bytes", sx("strlen", s), func(o string) string { return sx("strat", s, o) })
				// Go: []byte("") is non-nil but empty
				x.setVal(fr, i, Val{ic(ref), ic("0"), ic(sx("strlen", s)), ic(sx("strlen", s))})
				return r
			}
		}
		x.setVal(fr, i, x.havocVal(i.Type(), st, r, i.Name()))
		return r
	case *types.Pointer:
		if len(v) == 2 {
			x.setVal(fr, i, v)
		} else {
			x.setVal(fr, i, Val{v[0], ic("0")})
		}
		return r
	}
	x.setVal(fr, i, x.havocVal(i.Type(), st, r, i.Name()))
	return r
}

// wrap64conv converts between integer types, also into 64-bit ones when the
// source may be out of range (e.g. int64 -> uint64 of a negative value).
func (x *Exec) wrap64conv(from, to types.Type, term string) string {
	fb, _ := from.Underlying().(*types.Basic)
	tb, _ := to.Underlying().(*types.Basic)
	fbits, fsigned, _ := intBits(fb)
	tbits, tsigned, ok := intBits(tb)
	if !ok {
		return term
	}
	// widening that preserves the value
	if fbits > 0 && ((fsigned == tsigned && fbits <= tbits) || (!fsigned && tsigned && fbits < tbits)) {
		return term
	}
	if tbits < 64 {
		return x.wrap(to, term)
	}
	return x.wrap64(to, term)
}

func constantString(c *ssa.Const) string {
	if c.Value == nil || c.Value.Kind() != constant.String {
		return ""
	}
	return constant.StringVal(c.Value)
}
