package main

// SMT script builder. Terms are plain s-expression strings; every intermediate
// result of the symbolic execution is bound to a name with define-fun, so the
// script stays linear in the size of the function.

import (
	"fmt"
	"strconv"
	"strings"
)

// Cell is one scalar component of a Go value: an SMT term of sort Int or Bool.
type Cell struct {
	T string
	B bool // sort Bool
}

// Val is a Go value flattened into cells (see layout.go).
type Val []Cell

func ic(t string) Cell { return Cell{T: t} }
func bc(t string) Cell { return Cell{T: t, B: true} }

func itoa(n int64) string {
	if n < 0 {
		return fmt.Sprintf("(- %d)", -n)
	}
	return fmt.Sprintf("%d", n)
}

func sx(op string, args ...string) string {
	return "(" + op + " " + strings.Join(args, " ") + ")"
}

func and(args ...string) string {
	var keep []string
	for _, a := range args {
		if a == "true" || a == "" {
			continue
		}
		if a == "false" {
			return "false"
		}
		keep = append(keep, a)
	}
	switch len(keep) {
	case 0:
		return "true"
	case 1:
		return keep[0]
	}
	return sx("and", keep...)
}

func or(args ...string) string {
	var keep []string
	for _, a := range args {
		if a == "false" || a == "" {
			continue
		}
		if a == "true" {
			return "true"
		}
		keep = append(keep, a)
	}
	switch len(keep) {
	case 0:
		return "false"
	case 1:
		return keep[0]
	}
	return sx("or", keep...)
}

func not(a string) string {
	switch a {
	case "true":
		return "false"
	case "false":
		return "true"
	}
	if strings.HasPrefix(a, "(not ") {
		return a[5 : len(a)-1]
	}
	return sx("not", a)
}

func implies(a, b string) string {
	if a == "true" {
		return b
	}
	if b == "true" || a == "false" {
		return "true"
	}
	return sx("=>", a, b)
}

func ite(c, a, b string) string {
	if c == "true" || a == b {
		return a
	}
	if c == "false" {
		return b
	}
	return sx("ite", c, a, b)
}

func eq(a, b string) string {
	if a == b {
		return "true"
	}
	return sx("=", a, b)
}

func add(a, b string) string {
	if a == "0" {
		return b
	}
	if b == "0" {
		return a
	}
	// fold constants: (+ (+ x 4) 1) -> (+ x 5)
	if n, err := strconv.ParseInt(b, 10, 64); err == nil {
		if m, err := strconv.ParseInt(a, 10, 64); err == nil {
			return itoa(m + n)
		}
		if strings.HasPrefix(a, "(+ ") {
			body := a[3 : len(a)-1]
			if k := strings.LastIndex(body, " "); k > 0 {
				if m, err := strconv.ParseInt(body[k+1:], 10, 64); err == nil && balancedOne(body[:k]) {
					if m+n == 0 {
						return body[:k]
					}
					return "(+ " + body[:k] + " " + itoa(m+n) + ")"
				}
			}
		}
	}
	return sx("+", a, b)
}

// balancedOne: s is exactly one s-expression (atom or parenthesised)
func balancedOne(s string) bool {
	d := 0
	for i, ch := range s {
		switch ch {
		case '(':
			d++
		case ')':
			d--
			if d < 0 {
				return false
			}
		case ' ':
			if d == 0 {
				return false
			}
		}
		_ = i
	}
	return d == 0
}

func sub(a, b string) string {
	if b == "0" {
		return a
	}
	if a == b {
		return "0"
	}
	// (- (+ b y) b) -> y
	if strings.HasPrefix(a, "(+ "+b+" ") {
		rest := a[len("(+ "+b+" ") : len(a)-1]
		if balancedOne(rest) {
			return rest
		}
	}
	return sx("-", a, b)
}

func b2i(c Cell) string {
	if !c.B {
		return c.T
	}
	return ite(c.T, "1", "0")
}

func i2b(t string) string { return eq(t, "1") }

// Script accumulates declarations, definitions and facts in program order.
type Script struct {
	lines []string
	n     int
	decl  map[string]bool
	alias map[string]string // defined name -> defining term
	memo  map[string]string // defining term -> name (definitions are pure, so they can be shared)
}

func newScript() *Script {
	return &Script{decl: map[string]bool{}, alias: map[string]string{}, memo: map[string]string{}}
}

func (s *Script) fresh(prefix string) string {
	s.n++
	return fmt.Sprintf("%s!%d", sanitize(prefix), s.n)
}

func sanitize(x string) string {
	var b strings.Builder
	for _, r := range x {
		switch {
		case r >= 'a' && r <= 'z', r >= 'A' && r <= 'Z', r >= '0' && r <= '9', r == '_', r == '.', r == '$':
			b.WriteRune(r)
		default:
			b.WriteByte('_')
		}
	}
	return b.String()
}

func (s *Script) raw(line string) { s.lines = append(s.lines, line) }

func (s *Script) declConst(name string, isBool bool) {
	sort := "Int"
	if isBool {
		sort = "Bool"
	}
	s.raw(fmt.Sprintf("(declare-fun %s () %s)", name, sort))
}

// declFun declares an uninterpreted function once.
func (s *Script) declFun(name string, args []string, res string) {
	if s.decl[name] {
		return
	}
	s.decl[name] = true
	s.raw(fmt.Sprintf("(declare-fun %s (%s) %s)", name, strings.Join(args, " "), res))
}

// freshConst declares a new unconstrained constant.
func (s *Script) freshConst(prefix string, isBool bool) string {
	n := s.fresh(prefix)
	s.declConst(n, isBool)
	return n
}

// def binds a term to a fresh name (unless it is already atomic).
func (s *Script) def(prefix string, c Cell) Cell {
	if isAtom(c.T) {
		return c
	}
	key := c.T
	if c.B {
		key = "B:" + key
	}
	if n, ok := s.memo[key]; ok {
		return Cell{T: n, B: c.B}
	}
	n := s.fresh(prefix)
	sort := "Int"
	if c.B {
		sort = "Bool"
	}
	s.raw(fmt.Sprintf("(define-fun %s () %s %s)", n, sort, c.T))
	s.alias[n] = c.T
	s.memo[key] = n
	return Cell{T: n, B: c.B}
}

func (s *Script) defVal(prefix string, v Val) Val {
	out := make(Val, len(v))
	for i, c := range v {
		out[i] = s.def(prefix, c)
	}
	return out
}

func isAtom(t string) bool {
	return !strings.ContainsAny(t, " (")
}

// fact asserts a hypothesis that holds whenever `reach` holds.
func (s *Script) fact(reach, f string) {
	f = implies(reach, f)
	if f == "true" {
		return
	}
	s.raw("(assert " + f + ")")
}

func (s *Script) mark() int { return len(s.lines) }

func (s *Script) prefix(n int) string {
	return strings.Join(s.lines[:n], "\n")
}
