package main

// Engine: loaded program + contracts; creates one VC per function under contract.

import (
	"fmt"
	"go/token"
	"go/types"
	"os"
	"path/filepath"
	"sort"
	"strings"

	"golang.org/x/tools/go/packages"
	"golang.org/x/tools/go/ssa"
	"golang.org/x/tools/go/ssa/ssautil"
	"golang.org/x/tools/go/types/typeutil"
)

const modPath = "github.com/jhalter/mobius"

type Engine struct {
	repo           string
	prog           *ssa.Program
	fset           *token.FileSet
	pkgs           map[string]*ssa.Package // by short name: hotline, mobius
	funcs          map[string]*ssa.Function
	contracts      map[string]*Contract
	typeIDs        typeutil.Map
	nTypeID        int
	globals        map[*ssa.Global]int
	strConst       map[string]int
	strList        []string
	sizes          types.Sizes
	contractFiles  []string
	ppkgs          map[string]*packages.Package
	writtenGlobals map[*ssa.Global]bool
	defines        map[string]*define
}

func loadEngine(repo string, contractDir string, prop ...string) (*Engine, error) {
	overlay := map[string][]byte{}
	var cfiles []string
	// contracts: /repo copy when present, else the mirror injected by overlay
	for _, rel := range []string{"hotline/zz_verif_contracts.go", "internal/mobius/zz_verif_contracts.go"} {
		// the mirror in /verif/contracts is authoritative; it is overlaid on /repo's copy (kept
		// in sync by sync_contracts.sh) so that restoring or editing /repo does not disarm a check
		inRepo := filepath.Join(repo, rel)
		mirror := filepath.Join(contractDir, strings.ReplaceAll(rel, "/", "__"))
		if b, err := os.ReadFile(mirror); err == nil {
			overlay[inRepo] = b
			cfiles = append(cfiles, mirror)
		} else if _, err := os.Stat(inRepo); err == nil {
			cfiles = append(cfiles, inRepo)
		}
	}
	cfg := &packages.Config{
		Mode: packages.NeedName | packages.NeedFiles | packages.NeedCompiledGoFiles | packages.NeedImports |
			packages.NeedDeps | packages.NeedTypes | packages.NeedSyntax | packages.NeedTypesInfo | packages.NeedTypesSizes | packages.NeedModule,
		Dir:        repo,
		BuildFlags: []string{"-tags=verif"},
		Env:        append(os.Environ(), "GOFLAGS=-mod=mod", "GOPROXY=off", "GOSUMDB=off", "GOTOOLCHAIN=local"),
		Overlay:    overlay,
	}
	pkgs, err := packages.Load(cfg, "./hotline", "./internal/mobius")
	if err != nil {
		return nil, err
	}
	nerr := 0
	packages.Visit(pkgs, nil, func(p *packages.Package) {
		for _, e := range p.Errors {
			if strings.HasPrefix(p.PkgPath, modPath) {
				fmt.Fprintln(os.Stderr, "load error:", e)
				nerr++
			}
		}
	})
	if nerr > 0 {
		return nil, fmt.Errorf("%d load errors in %s", nerr, repo)
	}
	prog, _ := ssautil.AllPackages(pkgs, ssa.GlobalDebug|ssa.InstantiateGenerics)
	prog.Build()
	e := &Engine{repo: repo, prog: prog, fset: prog.Fset, pkgs: map[string]*ssa.Package{}, funcs: map[string]*ssa.Function{},
		contracts: map[string]*Contract{}, globals: map[*ssa.Global]int{}, strConst: map[string]int{}, contractFiles: cfiles,
		ppkgs: map[string]*packages.Package{}, defines: map[string]*define{}}
	packages.Visit(pkgs, nil, func(p *packages.Package) { e.ppkgs[p.PkgPath] = p })
	for _, p := range pkgs {
		sp := prog.Package(p.Types)
		e.pkgs[p.Types.Name()] = sp
		e.sizes = p.TypesSizes
	}
	for fn := range ssautil.AllFunctions(prog) {
		if fn.Pkg == nil || !strings.HasPrefix(fn.Pkg.Pkg.Path(), modPath) {
			continue
		}
		e.funcs[e.fnKey(fn)] = fn
	}
	for _, f := range cfiles {
		b, err := os.ReadFile(f)
		if err != nil {
			return nil, err
		}
		pkgName := "hotline"
		if strings.Contains(f, "mobius") && strings.Contains(f, "internal") {
			pkgName = "mobius"
		}
		cs, defs, err := parseContracts(string(b), pkgName, f)
		if err != nil {
			return nil, err
		}
		for k, d := range defs {
			e.defines[k] = d
		}
		for _, c := range cs {
			if len(prop) > 0 {
				c.filterProperty(prop[0])
			}
			if old, dup := e.contracts[c.Key]; dup {
				// several blocks for one function are merged (clauses grouped by property)
				old.Requires = append(old.Requires, c.Requires...)
				old.Ensures = append(old.Ensures, c.Ensures...)
				old.Modifies = append(old.Modifies, c.Modifies...)
				old.Lets = append(old.Lets, c.Lets...)
				old.Asserts = append(old.Asserts, c.Asserts...)
				old.NoPanic = old.NoPanic || c.NoPanic
				for k, v := range c.Raw {
					old.Raw[k] = append(old.Raw[k], v...)
				}
				for k, v := range c.Loops {
					if o := old.Loops[k]; o != nil {
						// clauses of several blocks (e.g. tagged for different properties) add up
						o.Invariants = append(o.Invariants, v.Invariants...)
						o.Modifies = append(o.Modifies, v.Modifies...)
						o.Decreases = append(o.Decreases, v.Decreases...)
						o.Reaches = append(o.Reaches, v.Reaches...)
						if v.Always {
							o.Always, o.AlwaysTag = true, v.AlwaysTag
						}
						if v.Complete {
							o.Complete, o.CompleteTag = true, v.CompleteTag
						}
						continue
					}
					old.Loops[k] = v
				}
				continue
			}
			e.contracts[c.Key] = c
		}
	}
	return e, nil
}

// fnKey is the name contracts use: pkgname.Func, pkgname.(*T).Method, pkgname.Func$1
func (e *Engine) fnKey(fn *ssa.Function) string {
	if fn.Pkg == nil {
		return fn.String()
	}
	s := fn.RelString(fn.Pkg.Pkg)
	return fn.Pkg.Pkg.Name() + "." + s
}

func (e *Engine) typeID(t types.Type) int {
	if v := e.typeIDs.At(t); v != nil {
		return v.(int)
	}
	e.nTypeID++
	e.typeIDs.Set(t, e.nTypeID)
	return e.nTypeID
}

func (e *Engine) globalRef(g *ssa.Global) int {
	if r, ok := e.globals[g]; ok {
		return r
	}
	r := len(e.globals) + 1
	e.globals[g] = r
	return r
}

const maxGlobals = 100000 // heap references start above this

// strID returns the abstract string value of a constant: 0 for "", negative otherwise.
func (e *Engine) strID(s string) int {
	if s == "" {
		return 0
	}
	if id, ok := e.strConst[s]; ok {
		return id
	}
	e.strList = append(e.strList, s)
	id := -len(e.strList)
	e.strConst[s] = id
	return id
}

func (e *Engine) pos(p token.Pos) string {
	if !p.IsValid() {
		return ""
	}
	ps := e.fset.Position(p)
	rel, err := filepath.Rel(e.repo, ps.Filename)
	if err != nil {
		rel = ps.Filename
	}
	return fmt.Sprintf("%s:%d", rel, ps.Line)
}

func (e *Engine) sortedContractKeys() []string {
	var ks []string
	for k := range e.contracts {
		ks = append(ks, k)
	}
	sort.Strings(ks)
	return ks
}

// fieldType: the named type hotline.Field
func (e *Engine) fieldType() types.Type {
	return e.pkgs["hotline"].Pkg.Scope().Lookup("Field").Type()
}

// ioKind classifies a concrete reader / writer type.
//
//	writers: 1 = record writer (its Write parses one complete record: directive `record_writer`
//	         on the Write method's contract), 2 = stream writer (directive `stream_writer`, or a
//	         library writer that simply appends: *bytes.Buffer, *os.File, *bufio.Writer)
//	readers: 2 = in-memory reader delivering everything asked for in one chunk (*bytes.Reader,
//	         *bytes.Buffer, *strings.Reader), 1 = anything else (a connection: arbitrary chunks)
func (e *Engine) ioKind(t types.Type, writer bool) int {
	if t == nil {
		return 0
	}
	s := typeStr(t)
	if writer {
		switch s {
		case "*bytes.Buffer", "*os.File", "*bufio.Writer", "*hotline.WriteCounter":
			return 2
		}
		if pt, ok := t.Underlying().(*types.Pointer); ok {
			if nt, ok := pt.Elem().(*types.Named); ok && nt.Obj().Pkg() != nil {
				key := nt.Obj().Pkg().Name() + ".(*" + nt.Obj().Name() + ").Write"
				if ct := e.contracts[key]; ct != nil {
					if _, ok := ct.Raw["stream_writer"]; ok {
						return 2
					}
					if _, ok := ct.Raw["record_writer"]; ok {
						return 1
					}
				}
				if e.funcs[key] != nil {
					return 1 // a repository Write method without classification is treated as a record parser
				}
			}
		}
		return 0
	}
	switch s {
	case "*bytes.Reader", "*bytes.Buffer", "*strings.Reader":
		return 2
	}
	// a repository type whose Read carries a cursor contract: 3
	if pt, ok := t.Underlying().(*types.Pointer); ok {
		if nt, ok := pt.Elem().(*types.Named); ok && nt.Obj().Pkg() != nil {
			key := nt.Obj().Pkg().Name() + ".(*" + nt.Obj().Name() + ").Read"
			if ct := e.contracts[key]; ct != nil && len(ct.Raw["cursor"]) > 0 {
				return 3
			}
		}
	}
	return 1
}
