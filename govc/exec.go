package main

// Symbolic execution of go/ssa functions into verification conditions.
// Loops are cut at their headers (invariant + havoc of the loop-carried state);
// the remaining DAG is encoded in one pass with reachability conditions per
// block and ite-merges at joins, so the script is linear in the function size.

import (
	"fmt"
	"go/ast"
	"go/constant"
	"go/token"
	"go/types"
	"os"
	"sort"
	"strings"

	"golang.org/x/tools/go/ssa"
)

type Exec struct {
	preTaggedOnly bool                      // mode A: only property-tagged callee preconditions are obligations
	qInst         []func(idx string) string // instantiators of quantified hypotheses (see instantiateAt)
	qDone         map[string]bool
	qRegister     bool
	lastSite      *CallSite   // the site of the call being executed (for `after call ... assume`)
	assertHits    map[int]int // site assertion (index in the contract) -> number of call sites it matched
	refBound      string      // allocation bound for references inside objects described by validFacts (default: entry)
	envCalls      map[string]bool
	entryBinds    []Val
	cutParts      map[string][]string
	eng           *Engine
	vc            *VC
	top           *ssa.Function
	topC          *Contract
	stack         []*ssa.Function
	maxDepth      int
	trace         *Trace
	checkPanics   bool
	nPanicObl     int
	nGuarded      int
	nonNil        map[string]bool // reference terms known to be non-zero on every path
	curFrame      *frame
	noModular     bool                // look into callees even when they carry a contract (trace extraction)
	loopSpecs     map[int]*LoopSpec   // plug-in supplied loop contracts of the top function
	over          map[string]stdModel // per-run model overrides (mode A abstractions)
	opaque        map[string]bool     // callees never inlined: result havocked, no write to existing memory
}

// frame is one activation (top-level or inlined).
type frame struct {
	fn        *ssa.Function
	c         *Contract
	vals      map[ssa.Value]Val
	reachIn   map[*ssa.BasicBlock]string
	reachOut  map[*ssa.BasicBlock]string
	stOut     map[*ssa.BasicBlock]State
	rets      []retSite
	defers    []deferred
	loops     map[*ssa.BasicBlock]*loopInfo
	depth     int
	entrySt   State
	entryVals []Val // entry values of params (receiver first)
	dbg       map[string][]dbgRef
	top       bool
}

type dbgRef struct {
	blk    *ssa.BasicBlock
	idx    int
	val    ssa.Value
	isAddr bool
}

type retSite struct {
	reach string
	vals  []Val
	st    State
	pos   token.Pos
	mark  int
}

type deferred struct {
	call  *ssa.Defer
	reach string
}

type loopInfo struct {
	ord     int
	header  *ssa.BasicBlock
	blocks  map[*ssa.BasicBlock]bool
	spec    *LoopSpec
	phiNew  map[*ssa.Phi]Val
	entrySt State
	// set when the head was havocked under a `loop k modifies` clause: the memory assumed at the
	// head and the cells assumed unchanged by an iteration (checked at every back edge)
	headMem  string
	keepCond string
}

func (x *Exec) val(fr *frame, v ssa.Value) Val {
	switch c := v.(type) {
	case *ssa.Const:
		return x.constVal(c)
	case *ssa.Global:
		return Val{ic(itoa(int64(x.eng.globalRef(c)))), ic("0")}
	case *ssa.Function:
		return Val{ic(itoa(int64(-x.eng.typeID(types.NewPointer(c.Signature)) - 1000000)))}
	case *ssa.Builtin:
		return Val{ic("0")}
	}
	if r, ok := fr.vals[v]; ok {
		return r
	}
	panic(unsupported(fmt.Sprintf("value %s (%T) not computed in %s", v.Name(), v, fr.fn)))
}

func (x *Exec) constVal(c *ssa.Const) Val {
	l := x.vc.ls.of(c.Type())
	if c.Value == nil {
		return zeroVal(l)
	}
	switch c.Value.Kind() {
	case constant.Bool:
		if constant.BoolVal(c.Value) {
			return Val{bc("true")}
		}
		return Val{bc("false")}
	case constant.String:
		return Val{ic(itoa(int64(x.strConst(constant.StringVal(c.Value)))))}
	case constant.Int:
		if v, ok := constant.Int64Val(c.Value); ok {
			return Val{ic(itoa(v))}
		}
		return Val{ic(c.Value.ExactString())}
	case constant.Float:
		return Val{ic(x.vc.S.freshConst("float", false))}
	}
	return zeroVal(l)
}

// strConst returns the id of a constant string and emits its content facts once.
func (x *Exec) strConst(s string) int {
	id := x.eng.strID(s)
	key := fmt.Sprintf("strconst:%d", id)
	if id != 0 && !x.vc.S.decl[key] {
		x.vc.S.decl[key] = true
		t := itoa(int64(id))
		x.vc.S.raw(fmt.Sprintf("(assert (= (strlen %s) %d))", t, len(s)))
		if len(s) <= 128 {
			for i := 0; i < len(s); i++ {
				x.vc.S.raw(fmt.Sprintf("(assert (= (strat %s %d) %d))", t, i, s[i]))
			}
		}
	}
	return id
}

// ---------------------------------------------------------------------------

func (x *Exec) setVal(fr *frame, v ssa.Value, val Val) {
	fr.vals[v] = x.vc.S.defVal(v.Name()+"_"+shortFn(fr.fn), val)
}

func shortFn(fn *ssa.Function) string {
	n := fn.Name()
	if len(n) > 12 {
		n = n[:12]
	}
	return n
}

// typedSeparation: Go's type safety keeps a pointer of static type *T (or a slice of T) from pointing
// into an object that was allocated with a type in which no T occurs.  For every such object
// allocated so far in this function the loaded reference is therefore different from it.
func (x *Exec) typedSeparation(reach string, t types.Type, v Val) {
	if len(x.vc.allocs) == 0 {
		return
	}
	x.walkRefs(t, 0, func(cell int, ft types.Type) {
		var pointee types.Type
		switch u := ft.Underlying().(type) {
		case *types.Pointer:
			pointee = u.Elem()
		case *types.Slice:
			pointee = u.Elem()
		}
		if pointee == nil || cell >= len(v) || !isAtom(v[cell].T) {
			return
		}
		if _, isIface := pointee.Underlying().(*types.Interface); isIface {
			return
		}
		for _, a := range x.vc.allocs {
			if a.ref == v[cell].T {
				continue
			}
			// an object whose address never left the registers cannot be what a loaded reference points to
			if x.vc.escaped[a.ref] && (typeContains(a.typ, pointee, 0) || typeContains(pointee, a.typ, 0)) {
				continue
			}
			x.vc.S.fact(reach, not(eq(v[cell].T, a.ref)))
			x.vc.markDistinct(v[cell].T, a.ref)
		}
	})
}

// typeFacts adds the range facts that Go's type system guarantees for a value
// that comes from outside (parameter, memory load, havocked call result).
func (x *Exec) typeFacts(reach string, t types.Type, v Val, st *State) {
	x.typedSeparation(reach, t, v)
	l := x.vc.ls.of(t)
	for i, ci := range l.cells {
		c := v[i].T
		switch ci.kind {
		case kInt:
			if ci.lo != "" {
				x.vc.S.fact(reach, and(sx("<=", ci.lo, c), sx("<=", c, ci.hi)))
			}
		case kRef:
			x.vc.S.fact(reach, and(sx("<=", "0", c), sx("<", c, st.Alloc)))
			if isAtom(c) {
				if _, ok := x.vc.bornLt[c]; !ok {
					x.vc.bornLt[c] = st.Alloc
				}
			}
		case kOff:
			x.vc.S.fact(reach, sx("<=", "0", c))
		case kLen:
			// cells: ref off len cap
			ref, ln, cp := v[i-2].T, c, v[i+1].T
			x.vc.S.fact(reach, and(sx("<=", "0", ln), sx("<=", ln, cp), sx("<=", cp, "1099511627776"),
				implies(eq(ref, "0"), eq(cp, "0"))))
		case kStr:
			x.vc.S.fact(reach, and(sx("<=", "0", sx("strlen", c)), sx("<=", sx("strlen", c), "1099511627776")))
		case kTypeID:
			x.vc.S.fact(reach, sx("<=", "0", c))
		}
	}
}

// run executes fn with the given arguments; returns merged results.
func (x *Exec) run(fn *ssa.Function, c *Contract, args []Val, bindings []Val, st State, reach string, depth int, top bool) (res []Val, out State, outReach string, fr *frame) {
	if len(fn.Blocks) == 0 {
		panic(unsupported("no body: " + fn.String()))
	}
	fr = &frame{fn: fn, c: c, vals: map[ssa.Value]Val{}, reachIn: map[*ssa.BasicBlock]string{}, reachOut: map[*ssa.BasicBlock]string{},
		stOut: map[*ssa.BasicBlock]State{}, loops: map[*ssa.BasicBlock]*loopInfo{}, depth: depth, top: top, dbg: map[string][]dbgRef{}}
	for i, p := range fn.Params {
		fr.vals[p] = args[i]
	}
	for i, fv := range fn.FreeVars {
		fr.vals[fv] = bindings[i]
	}
	fr.entrySt = st.clone()
	fr.entryVals = args
	x.stack = append(x.stack, fn)
	defer func() { x.stack = x.stack[:len(x.stack)-1] }()

	order, back := blockOrder(fn)
	x.findLoops(fr, order, back)

	for _, b := range order {
		var in []incoming
		for _, p := range b.Preds {
			if back[edge{p, b}] {
				continue
			}
			r, ok := fr.reachOut[p]
			if !ok {
				if os.Getenv("GOVC_DEBUG") != "" {
					fmt.Fprintf(os.Stderr, "debug: %s block %d: predecessor %d has no out-reach\n", fn.Name(), b.Index, p.Index)
				}
				continue // unreachable predecessor (e.g. after panic)
			}
			in = append(in, incoming{cond: and(r, x.edgeCond(fr, p, b)), st: fr.stOut[p]})
			if os.Getenv("GOVC_DEBUG") != "" && fn.Name() == os.Getenv("GOVC_DEBUG") {
				fmt.Fprintf(os.Stderr, "debug: %s block %d <- %d cond %s\n", fn.Name(), b.Index, p.Index, and(r, x.edgeCond(fr, p, b)))
			}
		}
		var cur State
		var r string
		if b == fn.Blocks[0] {
			cur, r = st.clone(), reach
		} else {
			if len(in) == 0 {
				continue
			}
			for i := range in {
				in[i].cond = x.vc.S.def("edge", bc(in[i].cond)).T
			}
			cur = x.vc.mergeStates(in)
			var cs []string
			for _, e := range in {
				cs = append(cs, e.cond)
			}
			r = x.vc.S.def(fmt.Sprintf("R%d_%s", b.Index, shortFn(fn)), bc(or(cs...))).T
		}
		fr.reachIn[b] = r
		li := fr.loops[b]
		// phis
		k := 0
		var phis []*ssa.Phi
		for _, ins := range b.Instrs {
			p, ok := ins.(*ssa.Phi)
			if !ok {
				break
			}
			phis = append(phis, p)
			k++
		}
		if li == nil {
			for _, p := range phis {
				x.setVal(fr, p, x.phiMerge(fr, p, b, in, back, false))
			}
		} else {
			r = x.loopHead(fr, li, b, phis, in, back, &cur, r)
		}
		// body
		alive := true
		for _, ins := range b.Instrs[k:] {
			var cont bool
			r, cont = x.instr(fr, ins, &cur, r)
			if !cont {
				if os.Getenv("GOVC_DEBUG") != "" {
					fmt.Fprintf(os.Stderr, "debug: %s block %d ends at %T %s\n", fn.Name(), b.Index, ins, ins)
				}
				alive = false
				break
			}
		}
		if alive {
			fr.reachOut[b] = r
			fr.stOut[b] = cur
			// back edges leaving this block: inductive step
			for _, s := range b.Succs {
				if back[edge{b, s}] {
					x.loopStep(fr, fr.loops[s], b, s)
				}
			}
		}
	}
	// merge return sites
	if len(fr.rets) == 0 {
		return nil, st, "false", fr
	}
	var inc []incoming
	var cs []string
	for i := range fr.rets {
		fr.rets[i].reach = x.vc.S.def("ret", bc(fr.rets[i].reach)).T
		inc = append(inc, incoming{cond: fr.rets[i].reach, st: fr.rets[i].st})
		cs = append(cs, fr.rets[i].reach)
	}
	out = x.vc.mergeStates(inc)
	outReach = x.vc.S.def("Rret_"+shortFn(fn), bc(or(cs...))).T
	nres := fn.Signature.Results().Len()
	for j := 0; j < nres; j++ {
		v := fr.rets[len(fr.rets)-1].vals[j]
		for i := len(fr.rets) - 2; i >= 0; i-- {
			w := fr.rets[i].vals[j]
			nv := make(Val, len(v))
			for ci := range v {
				nv[ci] = Cell{T: ite(fr.rets[i].reach, w[ci].T, v[ci].T), B: v[ci].B}
			}
			v = nv
		}
		res = append(res, x.vc.S.defVal("res_"+shortFn(fn), v))
	}
	return res, out, outReach, fr
}

type edge struct{ from, to *ssa.BasicBlock }

// blockOrder returns the blocks reachable from entry in reverse post-order of
// the DFS that ignores back edges (edges to a dominator).
func blockOrder(fn *ssa.Function) ([]*ssa.BasicBlock, map[edge]bool) {
	back := map[edge]bool{}
	seen := map[*ssa.BasicBlock]bool{}
	var post []*ssa.BasicBlock
	var dfs func(b *ssa.BasicBlock)
	dfs = func(b *ssa.BasicBlock) {
		seen[b] = true
		for _, s := range b.Succs {
			if s.Dominates(b) {
				back[edge{b, s}] = true
				continue
			}
			if !seen[s] {
				dfs(s)
			}
		}
		post = append(post, b)
	}
	dfs(fn.Blocks[0])
	for i, j := 0, len(post)-1; i < j; i, j = i+1, j-1 {
		post[i], post[j] = post[j], post[i]
	}
	return post, back
}

// loopExitsOnlyAtHeader: structural check for `loop k complete`
func loopExitsOnlyAtHeader(li *loopInfo) (bool, *ssa.BasicBlock) {
	for b := range li.blocks {
		if b == li.header {
			continue
		}
		for _, s := range b.Succs {
			if !li.blocks[s] {
				return false, b
			}
		}
		if len(b.Succs) == 0 {
			return false, b // return or panic inside the body
		}
	}
	return true, nil
}

func (x *Exec) findLoops(fr *frame, order []*ssa.BasicBlock, back map[edge]bool) {
	heads := map[*ssa.BasicBlock]bool{}
	for e := range back {
		heads[e.to] = true
	}
	var hs []*ssa.BasicBlock
	for h := range heads {
		hs = append(hs, h)
	}
	sort.Slice(hs, func(i, j int) bool { return hs[i].Index < hs[j].Index })
	for i, h := range hs {
		li := &loopInfo{ord: i + 1, header: h, blocks: map[*ssa.BasicBlock]bool{h: true}}
		// natural loop: blocks that reach a latch without passing the header
		var stack []*ssa.BasicBlock
		for e := range back {
			if e.to == h && !li.blocks[e.from] {
				li.blocks[e.from] = true
				stack = append(stack, e.from)
			}
		}
		for len(stack) > 0 {
			b := stack[len(stack)-1]
			stack = stack[:len(stack)-1]
			for _, p := range b.Preds {
				if !li.blocks[p] {
					li.blocks[p] = true
					stack = append(stack, p)
				}
			}
		}
		if fr.c != nil && fr.top {
			li.spec = fr.c.Loops[li.ord]
		}
		if fr.top && x.loopSpecs != nil && x.loopSpecs[li.ord] != nil {
			li.spec = x.loopSpecs[li.ord]
		}
		if fr.top && li.spec != nil && li.spec.Complete {
			ok, where := loopExitsOnlyAtHeader(li)
			goal, pos := "true", x.eng.pos(h.Instrs[0].Pos())
			if !ok {
				goal = "false"
				if len(where.Instrs) > 0 {
					pos = x.eng.pos(where.Instrs[len(where.Instrs)-1].Pos())
				}
			}
			x.vc.oblige(fmt.Sprintf("%s#inv-init:loop%d.complete(no exit from the body)", x.eng.fnKey(fr.fn), li.ord), "inv-init", "true", goal, pos)
		}
		if fr.top && li.spec != nil && li.spec.Always {
			goal := "true"
			for _, b := range fr.fn.Blocks {
				if b == fr.fn.Recover || len(b.Instrs) == 0 {
					continue
				}
				if _, isRet := b.Instrs[len(b.Instrs)-1].(*ssa.Return); isRet && !(h == b || h.Dominates(b)) {
					goal = "false"
				}
			}
			x.vc.oblige(fmt.Sprintf("%s#inv-init:loop%d.always(every return is behind the loop)", x.eng.fnKey(fr.fn), li.ord), "inv-init", "true", goal, x.eng.pos(h.Instrs[0].Pos()))
		}
		fr.loops[h] = li
	}
}

func (x *Exec) edgeCond(fr *frame, p, b *ssa.BasicBlock) string {
	last := p.Instrs[len(p.Instrs)-1]
	if iff, ok := last.(*ssa.If); ok {
		c := x.val(fr, iff.Cond)[0].T
		if p.Succs[0] == b && p.Succs[1] == b {
			return "true"
		}
		if p.Succs[0] == b {
			return c
		}
		return not(c)
	}
	return "true"
}

func (x *Exec) phiMerge(fr *frame, p *ssa.Phi, b *ssa.BasicBlock, in []incoming, back map[edge]bool, onlyEntry bool) Val {
	// in[] follows the order of non-back, reachable preds
	var vs []Val
	var cs []string
	k := 0
	for i, pred := range b.Preds {
		if back[edge{pred, b}] {
			continue
		}
		if _, ok := fr.reachOut[pred]; !ok {
			continue
		}
		vs = append(vs, x.val(fr, p.Edges[i]))
		cs = append(cs, in[k].cond)
		k++
	}
	v := vs[len(vs)-1]
	for i := len(vs) - 2; i >= 0; i-- {
		nv := make(Val, len(v))
		for ci := range v {
			nv[ci] = Cell{T: ite(cs[i], vs[i][ci].T, v[ci].T), B: v[ci].B}
		}
		v = nv
	}
	return v
}

// ---------------------------------------------------------------------------
// loops

func (x *Exec) loopName(fr *frame, li *loopInfo) string {
	return fmt.Sprintf("loop%d", li.ord)
}

func (x *Exec) loopHead(fr *frame, li *loopInfo, b *ssa.BasicBlock, phis []*ssa.Phi, in []incoming, back map[edge]bool, cur *State, r string) string {
	S := x.vc.S
	// 1. invariant on entry (phis take their entry values)
	entryVals := map[*ssa.Phi]Val{}
	for _, p := range phis {
		entryVals[p] = S.defVal(p.Name()+"_entry", x.phiMerge(fr, p, b, in, back, true))
	}
	li.entrySt = cur.clone()
	if li.spec != nil && fr.top {
		for _, p := range phis {
			fr.vals[p] = entryVals[p]
		}
		env := x.specEnv(fr, cur, b, 0)
		for i, inv := range li.spec.Invariants {
			t := x.evalBool(env, inv.Expr)
			x.vc.oblige(fmt.Sprintf("%s#inv-init:%s.%d", x.eng.fnKey(fr.fn), x.loopName(fr, li), i+1), "inv-init", r, t, x.eng.pos(b.Instrs[0].Pos()))
		}
		for i, f := range li.spec.InvFns {
			x.vc.oblige(fmt.Sprintf("%s#inv-init:%s.f%d", x.eng.fnKey(fr.fn), x.loopName(fr, li), i+1), "inv-init", r, f(env, phis), x.eng.pos(b.Instrs[0].Pos()))
		}
	}
	// 2. havoc loop-carried state
	li.phiNew = map[*ssa.Phi]Val{}
	for _, p := range phis {
		l := x.vc.ls.of(p.Type())
		v := make(Val, len(l.cells))
		for i, ci := range l.cells {
			v[i] = Cell{T: S.freshConst(p.Name()+"_"+p.Comment, ci.kind == kBool), B: ci.kind == kBool}
		}
		fr.vals[p] = v
		li.phiNew[p] = v
	}
	x.havocLoopState(fr, li, cur, r)
	for _, p := range phis {
		x.typeFacts(r, p.Type(), fr.vals[p], cur)
	}
	// 3. assume the invariant in the havocked state
	if li.spec != nil && fr.top {
		env := x.specEnv(fr, cur, b, 0)
		for _, inv := range li.spec.Invariants {
			S.fact(r, x.evalBool(env, inv.Expr))
		}
		for _, f := range li.spec.InvFns {
			S.fact(r, f(env, phis))
		}
	}
	return r
}

// havocLoopState: memory locations, maps and ghosts that the loop body may
// write are replaced by unconstrained values; the rest is framed.
func (x *Exec) havocLoopState(fr *frame, li *loopInfo, cur *State, r string) {
	S := x.vc.S
	writesMem, writesMaps, calls, callWrites := false, false, false, false
	for b := range li.blocks {
		for _, ins := range b.Instrs {
			switch i := ins.(type) {
			case *ssa.Store:
				writesMem = true
			case *ssa.MapUpdate:
				writesMaps = true
			case ssa.CallInstruction:
				if x.callMayWrite(i) {
					calls = true
				}
				if !pureCallee(x, i) {
					writesMem = true
					callWrites = true
				}
			case *ssa.Alloc, *ssa.MakeSlice, *ssa.MakeInterface, *ssa.MakeClosure, *ssa.Convert, *ssa.MakeMap:
				writesMem = true
			}
		}
	}
	oldAlloc := cur.Alloc
	if writesMem || calls {
		na := S.freshConst("alloc_loop", false)
		S.fact(r, sx(">=", na, oldAlloc))
		x.vc.allocP[na] = []string{oldAlloc}
		cur.Alloc = na
		// frame: objects that existed before the loop and are not named in
		// `loop k modifies` keep their contents
		keep := sx("<", "r", li.entrySt.Alloc)
		if li.spec != nil && len(li.spec.Modifies)+len(li.spec.ModFns) > 0 && fr.top {
			env := x.specEnv(fr, &li.entrySt, li.header, 0)
			var mods []string
			for _, m := range li.spec.Modifies {
				mods = append(mods, x.evalLoc(env, m.Expr))
			}
			for _, f := range li.spec.ModFns {
				mods = append(mods, f(env))
			}
			keep = and(keep, not(or(mods...)))
			x.havocMem(cur, keep)
			li.headMem, li.keepCond = cur.Mem, keep
			// the fields an iteration may modify hold well-typed values at the head, referring to
			// objects that exist by then (Go's type system; without this a havocked slice header may
			// "point" at an object that is only allocated later in the body)
			x.refBound = cur.Alloc
			for _, m := range li.spec.Modifies {
				// *p and &local: the pointee / the variable is well typed at the head as well
				var ptrE ast.Expr
				switch u := m.Expr.(type) {
				case *ast.StarExpr:
					ptrE = u.X
				case *ast.UnaryExpr:
					if u.Op == token.AND {
						ptrE = u
					}
				}
				if ptrE != nil {
					func() {
						defer func() {
							if e := recover(); e != nil {
								if _, ok := e.(specErr); !ok {
									panic(e)
								}
							}
						}()
						pv := env.eval(ptrE)
						if _, isPtr := pv.Ty.Underlying().(*types.Pointer); isPtr && len(pv.V) >= 2 {
							x.validFacts(cur.Mem, deref(pv.Ty), pv.V[0].T, pv.V[1].T, r, 1)
						}
					}()
				}
				if sel, ok := m.Expr.(*ast.SelectorExpr); ok {
					func() {
						defer func() {
							if e := recover(); e != nil {
								if _, ok := e.(specErr); !ok {
									panic(e)
								}
							}
						}()
						bv := env.eval(sel.X)
						ref, off, ft := env.fieldAddr(bv, sel.Sel.Name)
						x.validFacts(cur.Mem, ft, ref, off, r, 1)
					}()
				}
			}
			x.refBound = ""
		} else if !calls && !callWrites && !x.loopStoresOld(fr, li) {
			// only fresh objects are written
			x.vc.havocFrame(cur, li.entrySt.Alloc)
		} else {
			x.havocMem(cur, "false")
			if fr.top {
				x.vc.note("%s: loop %d has no modifies clause: all memory havocked at its head", x.eng.fnKey(fr.fn), li.ord)
			}
		}
	}
	if writesMaps || calls {
		x.vc.havocMaps(cur)
	}
	if calls {
		for k, v := range cur.Ghost {
			n := S.freshConst("g_"+k, false)
			S.fact(r, sx(">=", n, v))
			cur.Ghost[k] = n
		}
	}
}

func (x *Exec) havocMem(cur *State, keep string) string { return x.vc.havocMem(cur, keep) }

// loopStoresOld: conservative; a Store exists in the loop -> may write old objects
func (x *Exec) loopStoresOld(fr *frame, li *loopInfo) bool {
	for b := range li.blocks {
		for _, ins := range b.Instrs {
			if _, ok := ins.(*ssa.Store); ok {
				return true
			}
		}
	}
	return false
}

func (x *Exec) loopStep(fr *frame, li *loopInfo, latch, head *ssa.BasicBlock) {
	if li == nil || li.spec == nil || !fr.top {
		return
	}
	r := and(fr.reachOut[latch], x.edgeCond(fr, latch, head))
	st := fr.stOut[latch]
	// phis take the values along the back edge
	saved := map[*ssa.Phi]Val{}
	idx := -1
	for i, p := range head.Preds {
		if p == latch {
			idx = i
		}
	}
	for _, ins := range head.Instrs {
		p, ok := ins.(*ssa.Phi)
		if !ok {
			break
		}
		saved[p] = fr.vals[p]
	}
	nv := map[*ssa.Phi]Val{}
	for p := range saved {
		nv[p] = x.val(fr, p.Edges[idx])
	}
	for p, v := range nv {
		fr.vals[p] = v
	}
	// two-phase: compute all first (parallel assignment) - values above are already independent
	env := x.specEnv(fr, &st, head, 0)
	for i, inv := range li.spec.Invariants {
		t := x.evalBool(env, inv.Expr)
		x.vc.oblige(fmt.Sprintf("%s#inv-step:%s.%d@b%d", x.eng.fnKey(fr.fn), x.loopName(fr, li), i+1, latch.Index), "inv-step", r, t, x.eng.pos(head.Instrs[0].Pos()))
	}
	var hphis []*ssa.Phi
	for _, ins := range head.Instrs {
		p, ok := ins.(*ssa.Phi)
		if !ok {
			break
		}
		hphis = append(hphis, p)
	}
	for i, f := range li.spec.InvFns {
		x.vc.oblige(fmt.Sprintf("%s#inv-step:%s.f%d@b%d", x.eng.fnKey(fr.fn), x.loopName(fr, li), i+1, latch.Index), "inv-step", r, f(env, hphis), x.eng.pos(head.Instrs[0].Pos()))
	}
	// `loop k reaches X [when E]`: this iteration passed through a site X inside the loop
	for i, lr := range li.spec.Reaches {
		var sites []string
		dominated := false
		if x.trace != nil {
			if lr.What == "send" {
				for _, sd := range x.trace.sends {
					if sd.Fn == fr.fn && li.blocks[sd.Instr.Block()] {
						sites = append(sites, sd.Reach)
					}
				}
			} else if lr.What == "mapupdate" {
				for _, mu := range x.trace.mapUpdates {
					if mu.Fn == fr.fn && li.blocks[mu.Instr.Block()] {
						sites = append(sites, mu.Reach)
					}
				}
			} else {
				for _, c := range x.trace.calls {
					if c.Fn == fr.fn && c.Depth == fr.depth && c.Instr != nil && li.blocks[c.Instr.Block()] && calleeMatch(strings.TrimPrefix(lr.What, "call "), c.Callee) {
						sites = append(sites, c.Reach)
						// the site's block dominates the back edge: every iteration that goes round passed it
						if !c.IsDefer && (c.Instr.Block() == latch || c.Instr.Block().Dominates(latch)) {
							dominated = true
						}
					}
				}
			}
		}
		goal := or(sites...)
		if len(sites) == 0 {
			goal = "false"
		}
		if dominated {
			goal = "true"
		}
		if lr.When != nil {
			// the condition speaks about this iteration's values: evaluated at the back edge
			goal = implies(x.evalBool(x.specEnv(fr, &st, latch, 0), lr.When.Expr), goal)
		}
		x.vc.oblige(fmt.Sprintf("%s#inv-step:%s.reaches%d(%s)@b%d", x.eng.fnKey(fr.fn), x.loopName(fr, li), i+1, lr.What, latch.Index), "inv-step", r, goal, x.eng.pos(head.Instrs[0].Pos()))
	}
	// the iteration respects the loop's modifies clause: what the head assumed unchanged since
	// loop entry is unchanged at the back edge too
	if li.headMem != "" && st.Mem != li.headMem {
		goal := fmt.Sprintf("(forall ((r Int) (o Int)) (=> (and (<= 0 r) %s) (= (%s r o) (%s r o))))", li.keepCond, st.Mem, li.headMem)
		x.vc.oblige(fmt.Sprintf("%s#inv-step:%s.frame@b%d", x.eng.fnKey(fr.fn), x.loopName(fr, li), latch.Index), "inv-step", r, goal, x.eng.pos(head.Instrs[0].Pos()))
	}
	for p, v := range saved {
		fr.vals[p] = v
	}
}

func posOf(ins ssa.Instruction) token.Pos {
	if p := ins.Pos(); p.IsValid() {
		return p
	}
	return token.NoPos
}

func typeStr(t types.Type) string {
	return types.TypeString(t, func(p *types.Package) string { return p.Name() })
}

func hasPrefixAny(s string, ps ...string) bool {
	for _, p := range ps {
		if strings.HasPrefix(s, p) {
			return true
		}
	}
	return false
}

// callMayWrite: false for callees with an exact model or known not to write caller-visible state
func (x *Exec) callMayWrite(i ssa.CallInstruction) bool {
	c := i.Common()
	if _, ok := c.Value.(*ssa.Builtin); ok {
		return false
	}
	name := x.calleeName(c)
	if _, ok := stdModels[name]; ok {
		return false
	}
	if _, ok := x.over[name]; ok {
		return false
	}
	if x.opaque[name] || isNoEffect(name) || pureFuncs[name] {
		return false
	}
	return true
}

// pureCallee: the call writes no memory at all (not even through a model)
func pureCallee(x *Exec, i ssa.CallInstruction) bool {
	c := i.Common()
	if b, ok := c.Value.(*ssa.Builtin); ok {
		switch b.Name() {
		case "len", "cap", "min", "max", "print", "println", "ssa:wrapnilchk":
			return true
		}
		return false
	}
	switch x.calleeName(c) {
	case "(encoding/binary.bigEndian).Uint16", "(encoding/binary.bigEndian).Uint32", "(encoding/binary.bigEndian).Uint64",
		"bytes.Equal", "(*bytes.Buffer).Len", "encoding/binary.Size", "(*sync.Mutex).Lock", "(*sync.Mutex).Unlock",
		"(*sync.RWMutex).Lock", "(*sync.RWMutex).Unlock", "(*sync.RWMutex).RLock", "(*sync.RWMutex).RUnlock",
		"(*sync/atomic.Uint32).Load", "(*sync/atomic.Int32).Load", "(*sync/atomic.Int64).Load":
		return true
	}
	if _, ok := x.over[x.calleeName(c)]; ok {
		return true // mode-A abstractions return values only (their ghost effects are not memory)
	}
	return false
}
