package main

// The `check` driver: runs the obligations of one property against /repo's
// current working tree, compares with the known findings, writes evidence and
// replay files, prints KNOWN-FINDING / VIOLATION lines.

import (
	"encoding/json"
	"fmt"
	"os"
	"path/filepath"
	"sort"
	"strings"
	"time"
)

type KnownFinding struct {
	Property   string `json:"property"`
	Obligation string `json:"obligation"`
	Status     string `json:"status"` // known | fixed
	Commit     string `json:"commit,omitempty"`
	What       string `json:"what"`
}

func loadKnown(path string) ([]KnownFinding, error) {
	b, err := os.ReadFile(path)
	if err != nil {
		if os.IsNotExist(err) {
			return nil, nil
		}
		return nil, err
	}
	var out []KnownFinding
	for _, ln := range strings.Split(string(b), "\n") {
		ln = strings.TrimSpace(ln)
		if ln == "" || strings.HasPrefix(ln, "#") {
			continue
		}
		// "fixed: property=Cxx <commit> <what>" lines are informational
		if strings.HasPrefix(ln, "fixed:") {
			continue
		}
		var k KnownFinding
		if err := json.Unmarshal([]byte(ln), &k); err != nil {
			return nil, fmt.Errorf("known_findings: %v in %q", err, ln)
		}
		out = append(out, k)
	}
	return out, nil
}

// Item is one unit of a property's plan.
type Item struct {
	Func   string   // function under contract (mode F / site assertions)
	Kinds  []string // obligation kinds that count for this property ("" = all)
	Plugin string   // name of a plug-in obligation generator (mode A)
	Depth  int
	Opts   string
	Env    []string // callees whose error result marks an environment failure (streams plug-in)
}

type Run struct {
	Prop    string
	Tier    string
	Eng     *Engine
	Obls    []*Obligation
	Funcs   []string
	Notes   []string
	Errors  []string // functions that could not be brought under the engine (not claimed)
	Bounded []string
	Assume  map[string]bool
	SmtDir  string
	OutDir  string
	Root    string
	Workers int
	results map[string]*FuncResult
	pending []pendingVC
}

func (r *Run) assume(s string) { r.Assume[s] = true }

func kindOK(kinds []string, k string) bool {
	if len(kinds) == 0 {
		return true
	}
	for _, x := range kinds {
		if x == k {
			return true
		}
	}
	return false
}

func (r *Run) runFunc(it Item) {
	depth := it.Depth
	if depth == 0 {
		depth = 4
	}
	if r.Eng.contracts[it.Func] == nil {
		r.Errors = append(r.Errors, it.Func+": no contract found for a function of the plan")
		return
	}
	fr := r.Eng.verifyFunc(it.Func, true, depth)
	r.results[it.Func] = fr
	if fr.Err != "" {
		r.Errors = append(r.Errors, it.Func+": "+fr.Err)
		return
	}
	r.Funcs = append(r.Funcs, it.Func)
	quick, slow := 5, 20
	if r.Tier == "thorough" {
		quick, slow = 10, 60
	}
	// only the kinds that count
	var keep []*Obligation
	for _, o := range fr.VC.obls {
		if o.Cover || kindOK(it.Kinds, o.Kind) {
			keep = append(keep, o)
		}
	}
	fr.VC.obls = keep
	_ = quick
	_ = slow
	r.pending = append(r.pending, pendingVC{fr.VC, r.Prop + "_" + it.Func})
	for _, n := range fr.VC.notes {
		r.Notes = append(r.Notes, n)
	}
}

type pendingVC struct {
	vc  *VC
	tag string
}

// solveAll discharges the generated VCs, several functions at a time.
func (r *Run) solveAll() {
	quick, slow := 5, 20
	if r.Tier == "thorough" {
		quick, slow = 10, 60
	}
	sem := make(chan struct{}, 12)
	done := make(chan struct{}, len(r.pending))
	for _, p := range r.pending {
		p := p
		sem <- struct{}{}
		go func() {
			dischargeBatch(p.vc, r.SmtDir, p.tag, 4, quick, slow)
			<-sem
			done <- struct{}{}
		}()
	}
	for range r.pending {
		<-done
	}
	for _, p := range r.pending {
		r.Obls = append(r.Obls, p.vc.obls...)
	}
	r.pending = nil
}

func checkMain(args []string) int {
	if len(args) < 2 {
		fmt.Println("usage: govc check <Cxx> quick|thorough")
		return 2
	}
	prop, tier := args[0], args[1]
	repo := envOr("VERIF_REPO", "/repo")
	in := envOr("VERIF_ROOT", "/verif")
	root := envOr("VERIF_OUT", in)
	t0 := time.Now()
	plan, ok := plans[prop]
	if !ok {
		fmt.Printf("no check for %s\n", prop)
		return 2
	}
	eng, err := loadEngine(repo, filepath.Join(in, "contracts"), prop)
	if err != nil {
		fmt.Println("cannot load", repo, ":", err)
		return 2
	}
	run := &Run{Prop: prop, Tier: tier, Eng: eng, Assume: map[string]bool{}, SmtDir: filepath.Join(os.TempDir(), "govc_smt_"+prop),
		OutDir: root, Root: in, Workers: 16, results: map[string]*FuncResult{}}
	os.RemoveAll(run.SmtDir)
	for _, it := range plan.Items {
		if it.Plugin != "" {
			plugins[it.Plugin](run, it)
			continue
		}
		run.runFunc(it)
	}
	run.solveAll()
	known, err := loadKnown(filepath.Join(in, "known_findings.jsonl"))
	if err != nil {
		fmt.Println(err)
		return 2
	}
	knownBy := map[string]KnownFinding{}
	for _, k := range known {
		if k.Property == prop && k.Status == "known" {
			knownBy[k.Obligation] = k
		}
	}
	skipRetry := map[string]bool{}
	for k := range knownBy {
		skipRetry[k] = true
	}
	retryUnknown(run.Obls, 3*slowOf(tier), skipRetry)
	// classify
	var discharged, counted, violations int
	var samples []any
	bySolver := map[string]int{}
	solverS := 0.0
	var knownHit []string
	vac := map[string]int{}
	seenKnown := map[string]bool{}
	replayDir := filepath.Join(root, "replays", prop)
	os.MkdirAll(replayDir, 0o755)
	sort.SliceStable(run.Obls, func(i, j int) bool { return run.Obls[i].Name < run.Obls[j].Name })
	for _, o := range run.Obls {
		solverS += o.Secs
		if os.Getenv("GOVC_LIST") != "" {
			fmt.Fprintf(os.Stderr, "obl %s %s\n", o.Name, o.Status)
		}
		if o.Cover {
			vac[o.Status]++
			if o.Status == "cover-dead" {
				// hypotheses are contradictory: everything "proved" after it is vacuous
				violations++
				rp := writeReplay(replayDir, prop, o, "vacuous: hypotheses unsatisfiable at this point")
				fmt.Printf("VIOLATION property=%s replay=%s no-failing-input-found\n", prop, rp)
			}
			continue
		}
		if k, ok := knownBy[o.Name]; ok {
			seenKnown[o.Name] = true
			if o.Status == "discharged" {
				// a listed finding that no longer fails: report nothing, count as discharged
				counted++
				discharged++
				bySolver[o.Solver]++
				continue
			}
			fmt.Printf("KNOWN-FINDING: property=%s %s %s\n", prop, o.Name, k.What)
			knownHit = append(knownHit, o.Name)
			continue
		}
		counted++
		switch o.Status {
		case "discharged":
			discharged++
			bySolver[o.Solver]++
			if len(samples) < 12 {
				samples = append(samples, map[string]any{"obligation": o.Name, "kind": o.Kind, "solver": o.Solver, "secs": round3(o.Secs), "at": o.Pos})
			}
		case "failed":
			violations++
			rp, confirmed := replayObligation(run, replayDir, o)
			if confirmed {
				fmt.Printf("VIOLATION property=%s replay=%s\n", prop, rp)
			} else {
				fmt.Printf("VIOLATION property=%s replay=%s no-failing-input-found\n", prop, rp)
			}
		default:
			violations++
			rp := writeReplay(replayDir, prop, o, "no solver decided this obligation (unknown/timeout)")
			fmt.Printf("VIOLATION property=%s replay=%s no-failing-input-found\n", prop, rp)
		}
	}
	for _, e := range run.Errors {
		// a function of the plan that cannot be analysed any more is a lost proof
		violations++
		o := &Obligation{Name: strings.SplitN(e, ":", 2)[0] + "#engine", Kind: "engine", Output: e}
		rp := writeReplay(replayDir, prop, o, "function could not be brought under the verifier: "+e)
		fmt.Printf("VIOLATION property=%s replay=%s no-failing-input-found\n", prop, rp)
	}
	// evidence
	var assumptions []string
	for a := range run.Assume {
		assumptions = append(assumptions, a)
	}
	for a := range usedModels {
		assumptions = append(assumptions, "assumed contract: "+a)
	}
	assumptions = append(assumptions, plan.Assumptions...)
	assumptions = append(assumptions, baseAssumptions...)
	sort.Strings(assumptions)
	ev := map[string]any{
		"property_id": prop,
		"tier":        tier,
		"seed":        0,
		"level":       "proof",
		"coverage": map[string]any{
			"obligations":              counted,
			"discharged":               discharged,
			"checker_cmd":              fmt.Sprintf("./check %s %s  (govc: go/ssa weakest-precondition VCs, discharged by z3 5.1.0 / z3 4.8.12 / cvc5 1.0)", prop, tier),
			"trusted_base":             trustedBase,
			"samples":                  samples,
			"functions_under_contract": run.Funcs,
			"by_solver":                bySolver,
			"solver_s":                 round3(solverS),
			"known_findings":           knownHit,
			"abstraction_report":       dedup(run.Notes),
			"vacuity":                  vac,
			"bounded":                  run.Bounded,
			"not_analysed":             run.Errors,
			"decided_clauses":          plan.Decided,
			"undecided_clauses":        plan.Undecided,
		},
		"assumptions": assumptions,
		"wall_s":      round3(time.Since(t0).Seconds()),
		"violations":  violations,
	}
	os.MkdirAll(filepath.Join(root, "evidence"), 0o755)
	b, _ := json.MarshalIndent(ev, "", " ")
	os.WriteFile(filepath.Join(root, "evidence", prop+".json"), b, 0o644)
	fmt.Printf("%s %s: %d obligations, %d discharged, %d known findings, %d violations, %.1fs\n", prop, tier, counted, discharged, len(knownHit), violations, time.Since(t0).Seconds())
	if violations > 0 {
		return 1
	}
	if counted == 0 {
		fmt.Println("no obligations generated: refusing to report success")
		return 2
	}
	return 0
}

func envOr(k, d string) string {
	if v := os.Getenv(k); v != "" {
		return v
	}
	return d
}

func round3(f float64) float64 { return float64(int(f*1000+0.5)) / 1000 }

func dedup(xs []string) []string {
	seen := map[string]bool{}
	var out []string
	for _, x := range xs {
		if !seen[x] {
			seen[x] = true
			out = append(out, x)
		}
	}
	sort.Strings(out)
	return out
}

func writeReplay(dir, prop string, o *Obligation, why string) string {
	p := filepath.Join(dir, sanitize(o.Name)+".json")
	out := o.Output
	if len(out) > 20000 {
		out = out[:20000] + "\n...(truncated)"
	}
	rp := map[string]any{
		"property":      prop,
		"obligation":    o.Name,
		"kind":          o.Kind,
		"at":            o.Pos,
		"status":        o.Status,
		"why":           why,
		"solver":        o.Solver,
		"model":         o.Model,
		"solver_output": out,
	}
	b, _ := json.MarshalIndent(rp, "", " ")
	os.WriteFile(p, b, 0o644)
	return p
}

var trustedBase = []string{
	"govc (this VC generator: go/ssa semantics, memory model, contract evaluation)",
	"golang.org/x/tools v0.29.0 go/ssa, go/types (go1.23.5)",
	"z3 5.1.0, z3 4.8.12, cvc5 1.0 (first definitive answer of the race)",
	"assumed contracts of standard-library / third-party functions (listed under assumptions)",
}

var baseAssumptions = []string{
	"int/int64/uint64 arithmetic is treated as mathematical (no 64-bit overflow); narrower integer types wrap exactly",
	"slice and string lengths are at most 2^40",
	"distinct pointer/slice parameters of a verified function do not alias",
	"append is modelled as always reallocating (no observable sharing of spare capacity)",
	"floating point is not modelled (opaque)",
	"package-level protocol constants (Field*, Tran* byte arrays) are not mutated after initialisation",
}
