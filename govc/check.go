package main

// The `check` driver: runs the obligations of one property against /repo's
// current working tree, compares with the known findings, writes evidence and
// replay files, prints KNOWN-FINDING / VIOLATION lines.

import (
	"context"
	"encoding/json"
	"fmt"
	"os"
	"os/exec"
	"path/filepath"
	"sort"
	"strconv"
	"strings"
	"sync"
	"time"
)

type KnownFinding struct {
	Property   string `json:"property"`
	Obligation string `json:"obligation"`
	Status     string `json:"status"` // known | fixed
	Commit     string `json:"commit,omitempty"`
	What       string `json:"what"`
}

func loadKnown(path string) ([]KnownFinding, error) {
	b, err := os.ReadFile(path)
	if err != nil {
		if os.IsNotExist(err) {
			return nil, nil
		}
		return nil, err
	}
	var out []KnownFinding
	for _, ln := range strings.Split(string(b), "\n") {
		ln = strings.TrimSpace(ln)
		if ln == "" || strings.HasPrefix(ln, "#") {
			continue
		}
		// "fixed: property=Cxx <commit> <what>" lines are informational
		if strings.HasPrefix(ln, "fixed:") {
			continue
		}
		var k KnownFinding
		if err := json.Unmarshal([]byte(ln), &k); err != nil {
			return nil, fmt.Errorf("known_findings: %v in %q", err, ln)
		}
		out = append(out, k)
	}
	return out, nil
}

// Item is one unit of a property's plan.
type Item struct {
	Func   string   // function under contract (mode F / site assertions)
	Kinds  []string // obligation kinds that count for this property ("" = all)
	// ThoroughOnly: proved in the thorough tier only (slow bit-level arithmetic); the quick tier uses
	// the function's contract as an assumption and says so
	ThoroughOnly bool
	Plugin string   // name of a plug-in obligation generator (mode A)
	Depth  int
	Opts   string
	Env    []string // callees whose error result marks an environment failure (streams plug-in)
}

type Run struct {
	Prop    string
	Tier    string
	Eng     *Engine
	Obls    []*Obligation
	Funcs   []string
	Notes   []string
	Errors  []string // functions that could not be brought under the engine (not claimed)
	Bounded []string
	Assume  map[string]bool
	SmtDir  string
	OutDir  string
	Root    string
	Workers int
	results map[string]*FuncResult
	pending []pendingVC
}

func (r *Run) assume(s string) { r.Assume[s] = true }

func kindOK(kinds []string, k string) bool {
	if len(kinds) == 0 {
		return true
	}
	for _, x := range kinds {
		if x == k {
			return true
		}
	}
	return false
}

func (r *Run) runFunc(it Item) {
	depth := it.Depth
	if depth == 0 {
		depth = 4
	}
	if r.Eng.contracts[it.Func] == nil {
		r.Errors = append(r.Errors, it.Func+": no contract found for a function of the plan")
		return
	}
	fr := r.Eng.verifyFunc(it.Func, true, depth)
	r.results[it.Func] = fr
	if fr.Err != "" {
		r.Errors = append(r.Errors, it.Func+": "+fr.Err)
		return
	}
	r.Funcs = append(r.Funcs, it.Func)
	quick, slow := 5, 20
	if r.Tier == "thorough" {
		quick, slow = 10, 60
	}
	// only the kinds that count
	var keep []*Obligation
	for _, o := range fr.VC.obls {
		if o.Cover || kindOK(it.Kinds, o.Kind) {
			keep = append(keep, o)
		}
	}
	fr.VC.obls = keep
	_ = quick
	_ = slow
	r.pending = append(r.pending, pendingVC{fr.VC, r.Prop + "_" + it.Func})
	for _, n := range fr.VC.notes {
		r.Notes = append(r.Notes, n)
	}
}

type pendingVC struct {
	vc  *VC
	tag string
}

// solveAll discharges the generated VCs, several functions at a time.
func (r *Run) solveAll() {
	quick, slow := 5, 20
	if r.Tier == "thorough" {
		quick, slow = 10, 60
	}
	sem := make(chan struct{}, 12)
	done := make(chan struct{}, len(r.pending))
	for k, p := range r.pending {
		p := p
		// a function may be in the plan twice (two plug-ins): every VC gets file names of its own
		p.tag = fmt.Sprintf("%s_%03d", p.tag, k)
		sem <- struct{}{}
		go func() {
			dischargeBatch(p.vc, r.SmtDir, p.tag, 4, quick, slow)
			if r.Tier == "thorough" {
				crossCheck(p.vc, r.SmtDir, p.tag, 20, 4)
			}
			<-sem
			done <- struct{}{}
		}()
	}
	for range r.pending {
		<-done
	}
	for _, p := range r.pending {
		r.Obls = append(r.Obls, p.vc.obls...)
	}
	r.pending = nil
}

func checkMain(args []string) int {
	if len(args) < 2 {
		fmt.Println("usage: govc check <Cxx> quick|thorough")
		return 2
	}
	prop, tier := args[0], args[1]
	repo := envOr("VERIF_REPO", "/repo")
	in := envOr("VERIF_ROOT", "/verif")
	root := envOr("VERIF_OUT", in)
	t0 := time.Now()
	plan, ok := plans[prop]
	if !ok {
		fmt.Printf("no check for %s\n", prop)
		return 2
	}
	eng, err := loadEngine(repo, filepath.Join(in, "contracts"), prop)
	if err != nil {
		fmt.Println("cannot load", repo, ":", err)
		return 2
	}
	run := &Run{Prop: prop, Tier: tier, Eng: eng, Assume: map[string]bool{}, SmtDir: filepath.Join(os.TempDir(), "govc_smt_"+prop),
		OutDir: root, Root: in, Workers: 16, results: map[string]*FuncResult{}}
	if os.Getenv("GOVC_KEEP") == "" {
		// a directory of its own: two checks of the same property may run at the same time (sweeps)
		if d, err := os.MkdirTemp("", "govc_smt_"+prop+"_"); err == nil {
			run.SmtDir = d
			defer os.RemoveAll(d)
		}
	} else {
		os.RemoveAll(run.SmtDir)
	}
	for _, it := range plan.Items {
		if it.ThoroughOnly && tier != "thorough" {
			run.Assume["contract of "+it.Func+" (proved in the thorough tier only: slow bit-level arithmetic)"] = true
			continue
		}
		if it.Plugin != "" {
			plugins[it.Plugin](run, it)
			continue
		}
		run.runFunc(it)
	}
	run.solveAll()
	known, err := loadKnown(filepath.Join(in, "known_findings.jsonl"))
	if err != nil {
		fmt.Println(err)
		return 2
	}
	knownBy := map[string]KnownFinding{}
	for _, k := range known {
		if k.Property == prop && k.Status == "known" {
			knownBy[k.Obligation] = k
		}
	}
	skipRetry := map[string]bool{}
	for k := range knownBy {
		skipRetry[k] = true
	}
	retryUnknown(run.Obls, 3*slowOf(tier), skipRetry)
	// classify
	var discharged, counted, violations int
	var samples []any
	bySolver := map[string]int{}
	solverS := 0.0
	var knownHit []string
	vac := map[string]int{}
	seenKnown := map[string]bool{}
	replayDir := filepath.Join(root, "replays", prop)
	os.MkdirAll(replayDir, 0o755)
	sort.SliceStable(run.Obls, func(i, j int) bool { return run.Obls[i].Name < run.Obls[j].Name })
	for _, o := range run.Obls {
		solverS += o.Secs
		if os.Getenv("GOVC_LIST") != "" {
			fmt.Fprintf(os.Stderr, "obl %s %s\n", o.Name, o.Status)
		}
		if o.Cover {
			vac[o.Status]++
			if o.Status == "cover-dead" {
				// hypotheses are contradictory: everything "proved" after it is vacuous
				violations++
				rp := writeReplay(replayDir, prop, o, "vacuous: hypotheses unsatisfiable at this point")
				fmt.Printf("VIOLATION property=%s replay=%s no-failing-input-found\n", prop, rp)
			}
			continue
		}
		if k, ok := knownBy[o.Name]; ok {
			seenKnown[o.Name] = true
			if o.Status == "discharged" {
				// a listed finding that no longer fails: report nothing, count as discharged
				counted++
				discharged++
				bySolver[o.Solver]++
				continue
			}
			fmt.Printf("KNOWN-FINDING: property=%s %s %s\n", prop, o.Name, k.What)
			knownHit = append(knownHit, o.Name)
			continue
		}
		counted++
		switch o.Status {
		case "discharged":
			discharged++
			bySolver[o.Solver]++
			if len(samples) < 12 {
				samples = append(samples, map[string]any{"obligation": o.Name, "kind": o.Kind, "solver": o.Solver, "secs": round3(o.Secs), "at": o.Pos})
			}
		case "failed":
			violations++
			rp, confirmed := replayObligation(run, replayDir, o)
			if confirmed {
				fmt.Printf("VIOLATION property=%s replay=%s\n", prop, rp)
			} else {
				fmt.Printf("VIOLATION property=%s replay=%s no-failing-input-found\n", prop, rp)
			}
		default:
			violations++
			rp := writeReplay(replayDir, prop, o, "no solver decided this obligation (unknown/timeout)")
			fmt.Printf("VIOLATION property=%s replay=%s no-failing-input-found\n", prop, rp)
		}
	}
	for _, e := range run.Errors {
		// a function of the plan that cannot be analysed any more is a lost proof
		violations++
		o := &Obligation{Name: strings.SplitN(e, ":", 2)[0] + "#engine", Kind: "engine", Output: e}
		rp := writeReplay(replayDir, prop, o, "function could not be brought under the verifier: "+e)
		fmt.Printf("VIOLATION property=%s replay=%s no-failing-input-found\n", prop, rp)
	}
	// thorough tier: second-solver confirmation, bounded conformance tests of the assumed library
	// contracts, and the must-fail corpus (stored mutants and seeded changes of this property)
	var cross, conformance, mutants map[string]any
	if tier == "thorough" {
		by := map[string]int{}
		unconf := 0
		var disagree []string
		for _, o := range run.Obls {
			if o.Cover || o.Status != "discharged" {
				continue
			}
			switch {
			case o.Confirm != "":
				by[o.Confirm]++
			case o.Disagree != "":
				disagree = append(disagree, o.Name+" ("+o.Disagree+" answered sat)")
			default:
				unconf++
			}
		}
		for _, d := range disagree {
			fmt.Fprintln(os.Stderr, "NOTE: solvers disagree on", d)
		}
		cross = map[string]any{"confirmed_by": by, "unconfirmed_within_20s": unconf, "disagreements": disagree}
		var bad []string
		conformance, bad = runConformance(prop, repo, in)
		for _, tname := range bad {
			violations++
			o := &Obligation{Name: "assumed-contract:" + tname, Kind: "assumption", Output: fmt.Sprint(conformance["output"])}
			rp := writeReplay(replayDir, prop, o, "a library contract the proof assumes is refuted by the real library: go test -overlay (conformance/assumed_contracts_test.go) -run "+tname)
			fmt.Printf("VIOLATION property=%s replay=%s\n", prop, rp)
		}
		if os.Getenv("VERIF_REPO") == "" {
			mutants = runCorpus(prop, in)
		}
		if conformance != nil {
			for _, tname := range conformance["tests"].([]string) {
				run.Bounded = append(run.Bounded, "bounded conformance test of an assumed library contract: "+tname+" (bounds stated in conformance/assumed_contracts_test.go)")
			}
		}
	}
	// evidence
	var assumptions []string
	for a := range run.Assume {
		assumptions = append(assumptions, a)
	}
	for a := range usedModels {
		assumptions = append(assumptions, "assumed contract: "+a)
	}
	assumptions = append(assumptions, plan.Assumptions...)
	assumptions = append(assumptions, baseAssumptions...)
	sort.Strings(assumptions)
	ev := map[string]any{
		"property_id": prop,
		"tier":        tier,
		"seed":        seedFromEnv(),
		"level":       "proof",
		"coverage": map[string]any{
			"obligations":              counted,
			"discharged":               discharged,
			"checker_cmd":              fmt.Sprintf("./check %s %s  (govc: go/ssa weakest-precondition VCs, discharged by z3 5.1.0 / z3 4.8.12 / cvc5 1.0)", prop, tier),
			"trusted_base":             trustedBase,
			"samples":                  samples,
			"functions_under_contract": run.Funcs,
			"by_solver":                bySolver,
			"solver_s":                 round3(solverS),
			"known_findings":           knownHit,
			"abstraction_report":       dedup(run.Notes),
			"vacuity":                  vac,
			"bounded":                  run.Bounded,
			"not_analysed":             run.Errors,
			"decided_clauses":          plan.Decided,
			"undecided_clauses":        plan.Undecided,
			"cross_check":              cross,
			"conformance":              conformance,
			"must_fail_corpus":         mutants,
		},
		"assumptions": assumptions,
		"wall_s":      round3(time.Since(t0).Seconds()),
		"violations":  violations,
	}
	os.MkdirAll(filepath.Join(root, "evidence"), 0o755)
	b, _ := json.MarshalIndent(ev, "", " ")
	os.WriteFile(filepath.Join(root, "evidence", prop+".json"), b, 0o644)
	fmt.Printf("%s %s: %d obligations, %d discharged, %d known findings, %d violations, %.1fs\n", prop, tier, counted, discharged, len(knownHit), violations, time.Since(t0).Seconds())
	if violations > 0 {
		return 1
	}
	if counted == 0 {
		fmt.Println("no obligations generated: refusing to report success")
		return 2
	}
	return 0
}

func envOr(k, d string) string {
	if v := os.Getenv(k); v != "" {
		return v
	}
	return d
}

func round3(f float64) float64 { return float64(int(f*1000+0.5)) / 1000 }

func dedup(xs []string) []string {
	seen := map[string]bool{}
	var out []string
	for _, x := range xs {
		if !seen[x] {
			seen[x] = true
			out = append(out, x)
		}
	}
	sort.Strings(out)
	return out
}

func writeReplay(dir, prop string, o *Obligation, why string) string {
	p := filepath.Join(dir, sanitize(o.Name)+".json")
	out := o.Output
	if len(out) > 20000 {
		out = out[:20000] + "\n...(truncated)"
	}
	rp := map[string]any{
		"property":      prop,
		"obligation":    o.Name,
		"kind":          o.Kind,
		"at":            o.Pos,
		"status":        o.Status,
		"why":           why,
		"solver":        o.Solver,
		"model":         o.Model,
		"solver_output": out,
	}
	b, _ := json.MarshalIndent(rp, "", " ")
	os.WriteFile(p, b, 0o644)
	return p
}

var trustedBase = []string{
	"govc (this VC generator: go/ssa semantics, memory model, contract evaluation)",
	"golang.org/x/tools v0.29.0 go/ssa, go/types (go1.23.5)",
	"z3 5.1.0, z3 4.8.12, cvc5 1.0 (first definitive answer of the race)",
	"assumed contracts of standard-library / third-party functions (listed under assumptions)",
}

var baseAssumptions = []string{
	"int/int64/uint64 arithmetic is treated as mathematical (no 64-bit overflow); narrower integer types wrap exactly",
	"slice and string lengths are at most 2^40",
	"distinct pointer/slice parameters of a verified function do not alias",
	"append is modelled as always reallocating (no observable sharing of spare capacity)",
	"floating point is not modelled (opaque)",
	"package-level protocol constants (Field*, Tran* byte arrays) are not mutated after initialisation",
	"library calls on the no-effect list (stdmodels.go: logging, fmt, strings, path, time, regexp, os.* and FileStore file operations, FileInfo/DirEntry getters, ...) write no memory visible to the caller; the internal state of library readers/writers is not modelled except through the stream and cursor models",
	"mode A only: callees on the opaque list (plugin_priv.go: constructors and read-only helpers such as NewField, NewTransaction, GetField, ReadPath, NewFileWrapper) return fresh values and leave existing memory unchanged; general (untagged) preconditions of callees are assumed at handler call sites and listed in the abstraction report",
}

// conformanceFor: which assumed library contracts a property's proof uses
var conformanceFor = map[string][]string{
	"C01": {"BigEndian", "ConcatEqual", "DrainLemma", "BinaryFixed"},
	"C02": {"BinaryFixed", "StreamOps", "DrainLemma"},
	"C04": {"BinaryFixed"},
	"C07": {"PathAxioms", "ErrPredicates"},
	"C08": {"StreamOps", "DrainLemma", "BinaryFixed", "BigEndian"},
	"C09": {"StreamOps"},
	"C10": {"StreamOps", "DrainLemma", "ErrPredicates", "BigEndian"},
	"C11": {"NameLengths", "PathAxioms", "ErrPredicates", "DrainLemma"},
	"C14": {"DrainLemma", "BigEndian"},
	"C15": {"PathAxioms"},
	"C18": {"BigEndian", "DrainLemma"},
	"C19": {"ConcatEqual", "DrainLemma"},
	"C20": {"ErrPredicates"},
}

// runConformance runs the bounded conformance tests for the property on the real libraries,
// injected into package hotline of the tree under check (go test -overlay, nothing is written there).
func runConformance(prop, repo, in string) (map[string]any, []string) {
	topics := conformanceFor[prop]
	if len(topics) == 0 {
		return nil, nil
	}
	dir, err := os.MkdirTemp("", "govc_conf")
	if err != nil {
		return map[string]any{"error": err.Error()}, nil
	}
	defer os.RemoveAll(dir)
	ov := filepath.Join(dir, "ov.json")
	os.WriteFile(ov, []byte(fmt.Sprintf(`{"Replace": {%q: %q}}`, filepath.Join(repo, "hotline", "zz_verif_conformance_test.go"), filepath.Join(in, "conformance", "assumed_contracts_test.go"))), 0o644)
	var names []string
	for _, t := range topics {
		names = append(names, "TestAssumed_"+t)
	}
	ctx, cancel := context.WithTimeout(context.Background(), 5*time.Minute)
	defer cancel()
	cmd := exec.CommandContext(ctx, "go", "test", "-overlay", ov, "-vet=off", "-count=1", "-timeout", "240s", "-run", "^("+strings.Join(names, "|")+")$", "-v", "./hotline/")
	cmd.Dir = repo
	cmd.Env = append(os.Environ(), "GOFLAGS=-mod=mod", "GOPROXY=off", "GOSUMDB=off", "GOTOOLCHAIN=local")
	out, _ := cmd.CombinedOutput()
	var passed, failed []string
	for _, ln := range strings.Split(string(out), "\n") {
		ln = strings.TrimSpace(ln)
		if strings.HasPrefix(ln, "--- PASS: ") {
			passed = append(passed, strings.Fields(ln)[2])
		}
		if strings.HasPrefix(ln, "--- FAIL: ") {
			failed = append(failed, strings.Fields(ln)[2])
		}
	}
	res := map[string]any{"tests": names, "passed": passed, "failed": failed}
	if len(passed)+len(failed) != len(names) {
		res["error"] = "conformance tests did not all run"
		res["output"] = tailStr(string(out), 2000)
	}
	if len(failed) > 0 {
		res["output"] = tailStr(string(out), 4000)
	}
	return res, failed
}

func tailStr(s string, n int) string {
	if len(s) > n {
		return s[len(s)-n:]
	}
	return s
}

// runCorpus runs the property's must-fail corpus: every stored mutant and seeded change must make
// the quick check report a violation.  A miss is reported in the evidence (it says the check is
// weaker than hoped, not that the code is wrong).
func runCorpus(prop, in string) map[string]any {
	var patches []string
	m1, _ := filepath.Glob(filepath.Join(in, "selftest", "mutants", prop, "*.diff"))
	m2, _ := filepath.Glob(filepath.Join(in, "seeded", prop+"_v*", "patch.diff"))
	patches = append(append(patches, m1...), m2...)
	sort.Strings(patches)
	var detected, missed, broken []string
	var mu sync.Mutex
	var wg sync.WaitGroup
	sem := make(chan struct{}, 2)
	for _, p := range patches {
		p := p
		wg.Add(1)
		sem <- struct{}{}
		go func() {
			defer wg.Done()
			defer func() { <-sem }()
			ctx, cancel := context.WithTimeout(context.Background(), 15*time.Minute)
			defer cancel()
			cmd := exec.CommandContext(ctx, filepath.Join(in, "selftest", "mutant.sh"), prop, p)
			out, _ := cmd.CombinedOutput()
			rel, _ := filepath.Rel(in, p)
			mu.Lock()
			defer mu.Unlock()
			switch {
			case strings.Contains(string(out), "DETECTED "):
				detected = append(detected, rel)
			case strings.Contains(string(out), "MISSED "):
				missed = append(missed, rel)
			default:
				broken = append(broken, rel)
			}
		}()
	}
	wg.Wait()
	sort.Strings(detected)
	sort.Strings(missed)
	fmt.Fprintf(os.Stderr, "must-fail corpus: %d of %d detected, %d missed, %d not applicable\n", len(detected), len(patches), len(missed), len(broken))
	return map[string]any{"total": len(patches), "detected": detected, "missed": missed, "patch_does_not_apply_or_build": broken}
}

// seedFromEnv: the checks are deterministic (no sampling); the seed is recorded as given
func seedFromEnv() int {
	n, _ := strconv.Atoi(os.Getenv("VERIF_SEED"))
	return n
}
