package main

// Persisted-shape plug-in (C15, C18): the YAML tags of the record types that are written to and
// reloaded from disk must be the ones listed in spec/yaml_tags.spec.  The YAML library's round trip
// is an assumed contract; which keys it reads and writes, and whether an empty map is written at
// all (",omitempty" makes an empty category come back with nil maps), is decided by these tags.
// One obligation per field and per row: trivially decided, but named, so that a change of the
// on-disk shape fails as `<type>#yamltag:<field>`.

import (
	"fmt"
	"go/types"
	"os"
	"path/filepath"
	"reflect"
	"strings"
)

func init() { plugins["yamltags"] = pluginYamlTags }

func pluginYamlTags(r *Run, it Item) {
	b, err := os.ReadFile(filepath.Join(r.Root, "spec", "yaml_tags.spec"))
	if err != nil {
		r.Errors = append(r.Errors, "yaml_tags.spec: "+err.Error())
		return
	}
	want := map[string]string{}
	for _, ln := range strings.Split(string(b), "\n") {
		ln = strings.TrimSpace(ln)
		if ln == "" || strings.HasPrefix(ln, "#") {
			continue
		}
		parts := strings.SplitN(ln, ";", 2)
		if len(parts) != 2 {
			continue
		}
		want[strings.TrimSpace(parts[0])] = strings.TrimSpace(parts[1])
	}
	vc := &VC{S: newScript(), ls: newLayouts(), mapFams: map[string]*mapFam{}, nonNil: map[string]bool{}}
	seen := map[string]bool{}
	for _, tn := range strings.Fields(it.Opts) { // e.g. "hotline.Account hotline.NewsArtData"
		dot := strings.LastIndex(tn, ".")
		pkg := r.Eng.pkgs[tn[:dot]]
		if pkg == nil {
			r.Errors = append(r.Errors, "yamltags: package of "+tn+" not found")
			continue
		}
		obj := pkg.Pkg.Scope().Lookup(tn[dot+1:])
		if obj == nil {
			r.Errors = append(r.Errors, "yamltags: type "+tn+" not found")
			continue
		}
		st, ok := obj.Type().Underlying().(*types.Struct)
		if !ok {
			r.Errors = append(r.Errors, "yamltags: "+tn+" is not a struct")
			continue
		}
		r.Funcs = append(r.Funcs, tn+" (yaml tags)")
		for i := 0; i < st.NumFields(); i++ {
			key := tn + "." + st.Field(i).Name()
			seen[key] = true
			got := reflect.StructTag(st.Tag(i)).Get("yaml")
			exp, listed := want[key]
			goal := "true"
			if !listed || got != exp {
				goal = "false"
			}
			o := vc.oblige(fmt.Sprintf("%s#yamltag:%s", tn, st.Field(i).Name()), "table", "true", goal, r.Eng.pos(st.Field(i).Pos()))
			o.Output = fmt.Sprintf("yaml tag is %q, spec/yaml_tags.spec says %q (listed: %v)", got, exp, listed)
		}
	}
	for key := range want {
		for _, tn := range strings.Fields(it.Opts) {
			if strings.HasPrefix(key, tn+".") && !seen[key] {
				vc.oblige(fmt.Sprintf("%s#yamltag-row-without-field", key), "table", "true", "false", "spec/yaml_tags.spec")
			}
		}
	}
	r.pending = append(r.pending, pendingVC{vc, r.Prop + "_yamltags"})
}
