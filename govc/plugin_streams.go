package main

// Byte-stream plug-in (C08, C10): file transfers are sequences of stream operations -- open a
// file, skip to an offset, copy to the connection until EOF, write a fixed-size header.  The
// plug-in gives those library operations assumed contracts over ghost state:
//
//	spos:<s>     bytes consumed so far from the stream s (a file opened in this function)
//	ssize(s)     total length of the stream s (uninterpreted, >= 0)
//	written:<w>  bytes handed to the writer w, wcalls:<w> number of write operations on w
//	envfail      1 once an environment-dependent operation (open, read, write, stat) failed
//	shortskip    1 once a Discard/Seek failed only because the stream is shorter than the offset
//	shortcopy    1 once an io.CopyN failed only because the stream ended before n bytes
//
// bufio.NewReader(r) and io.TeeReader(r, w) denote the same stream as r.  A reader whose Read
// carries a cursor contract is drained by the lemma of models_io.go.  The function's own
// contract then states, at each write, what must already have been written and where the
// source stands, and at the exit that it fails only when the environment did.

import (
	"fmt"
	"go/types"
	"strings"

	"golang.org/x/tools/go/ssa"
)

func init() { plugins["streams"] = pluginStreams }

func isErrType(t types.Type) bool {
	n, ok := t.(*types.Named)
	return ok && n.Obj().Pkg() == nil && n.Obj().Name() == "error"
}

func bump(x *Exec, st *State, g string, by string) {
	st.Ghost[g] = x.vc.S.def("g_"+sanitize(strings.SplitN(g, ":", 2)[0]), ic(add(ghost(st, g), by))).T
}

// Per-object ghost counters (bytes written to a writer, position in a stream, ...) live in ghost
// objects of the cell memory: counter c of object ref is the cell (GH_c, ref).  Whether two
// expressions denote the same object is then decided by the solver, not by comparing terms; the
// counters follow the memory through joins, and old(...) works on them.  Ghost objects are stable:
// no callee writes them.  All counters are 0 at entry.
var ghostObjs = []string{"GH_WRITTEN", "GH_WCALLS", "GH_SPOS", "GH_TRACK"}

func ghostObj(x *Exec, name string) string {
	if !x.vc.S.decl["ghostobj:"+name] {
		x.vc.S.decl["ghostobj:"+name] = true
		k := 11
		for i, n := range ghostObjs {
			if n == name {
				k += i
			}
		}
		// negative: every reference of the program is >= 0, so a ghost object aliases nothing
		x.vc.S.raw(fmt.Sprintf("(define-fun %s () Int (- %d))", name, k))
		x.vc.stable = append(x.vc.stable, name)
		x.vc.nonNil[name] = true
	}
	return name
}

func gget(x *Exec, st *State, obj, ref string) string {
	// all counters are 0 at entry: stated for each object whose counter is ever read (instances
	// of "forall o. M0(GH, o) = 0"; a quantified axiom here slows every query down)
	if k := "ghostzero:" + obj + "|" + ref; !x.vc.S.decl[k] {
		x.vc.S.decl[k] = true
		x.vc.S.raw(fmt.Sprintf("(assert (= (%s %s %s) 0))", x.vc.baseMem, ghostObj(x, obj), ref))
	}
	return x.vc.read(st.Mem, ghostObj(x, obj), ref)
}

func gset(x *Exec, st *State, obj, ref, val string) {
	x.vc.store(st, ghostObj(x, obj), ref, Val{ic(x.vc.S.def("g_"+strings.ToLower(obj[3:]), ic(val)).T)})
}

func gadd(x *Exec, st *State, obj, ref, by string) {
	gset(x, st, obj, ref, add(gget(x, st, obj, ref), by))
}

func raise(x *Exec, st *State, g string, cond string) {
	st.Ghost[g] = x.vc.S.def("g_"+g, ic(ite(cond, "1", ghost(st, g)))).T
}

// streamKey: the object a reader value denotes (interface: the pointer inside; pointer: itself)
func streamKey(x *Exec, t types.Type, v Val) (key, ref string) {
	if t != nil {
		if _, ok := t.Underlying().(*types.Interface); ok && len(v) >= 3 {
			return x.vc.canon(v[1].T), v[1].T
		}
	}
	return x.vc.canon(v[0].T), v[0].T
}

func declStreams(x *Exec) {
	x.vc.S.raw("(declare-fun ssize (Int) Int)")
	x.vc.S.raw("(assert (forall ((s Int)) (! (>= (ssize s) 0) :pattern ((ssize s)))))")
	x.vc.S.raw("(assert (= (ssize 0) 0))")
}

// open: (f *os.File, err error); err != nil <=> f == nil; a new stream at position 0
func streamOpen(x *Exec, fr *frame, ins ssa.CallInstruction, c *ssa.CallCommon, args []Val, st *State, r string) (Val, string) {
	used("Open(path): returns (f, nil) with f a new stream at position 0 of ssize(f) bytes, or (nil, err)")
	before := st.Alloc
	res := x.opaqueCall("Open", c.Signature().Results(), st, r)
	x.vc.S.fact(r, eq(eq(res[0].T, "0"), not(eq(res[2].T, "0"))))
	// the file object is new: no earlier value denotes it
	x.vc.S.fact(r, implies(not(eq(res[0].T, "0")), and(sx(">=", res[0].T, before), eq(res[1].T, "0"))))
	gset(x, st, "GH_SPOS", res[0].T, "0")
	gset(x, st, "GH_TRACK", res[0].T, "1")
	raise(x, st, "envfail", not(eq(res[2].T, "0")))
	return res, r
}

// bufio.NewReader(r), io.TeeReader(r, w): the same stream
func streamAliasPtr(x *Exec, fr *frame, ins ssa.CallInstruction, c *ssa.CallCommon, args []Val, st *State, r string) (Val, string) {
	used("bufio.NewReader(r) reads the stream r (buffering does not change the bytes delivered)")
	a := args[0]
	return Val{a[1], a[2]}, r
}

func streamAliasIface(x *Exec, fr *frame, ins ssa.CallInstruction, c *ssa.CallCommon, args []Val, st *State, r string) (Val, string) {
	used("io.TeeReader(r, w) delivers the stream r (w only observes it)")
	return args[0], r
}

// tracked: the object is a stream opened in the function under analysis (its position is known)
func tracked(x *Exec, st *State, ref string) string { return eq(gget(x, st, "GH_TRACK", ref), "1") }

// (*bufio.Reader).Discard(n): skips n bytes, or fails when the stream is shorter / unreadable
func streamDiscard(x *Exec, fr *frame, ins ssa.CallInstruction, c *ssa.CallCommon, args []Val, st *State, r string) (Val, string) {
	_, ref := streamKey(x, c.Args[0].Type(), args[0])
	used("(*bufio.Reader).Discard(n): advances the stream by n and returns nil when n bytes remain; otherwise an error")
	tr := tracked(x, st, ref)
	pos := gget(x, st, "GH_SPOS", ref)
	res := x.opaqueCall("Discard", c.Signature().Results(), st, r)
	n := args[1][0].T
	f := x.vc.S.freshConst("iofail", true)
	short := sx(">", n, sub(sx("ssize", ref), pos))
	ok := and(not(f), not(short), sx(">=", n, "0"))
	x.vc.S.fact(r, implies(tr, eq(eq(res[1].T, "0"), ok)))
	np := x.vc.S.freshConst("skippos", false)
	gset(x, st, "GH_SPOS", ref, ite(tr, ite(ok, add(pos, n), pos), np))
	raise(x, st, "envfail", or(and(tr, f), and(not(tr), not(eq(res[1].T, "0")))))
	raise(x, st, "shortskip", and(tr, not(f), or(short, sx("<", n, "0"))))
	return res, r
}

// (*os.File).Seek(off, whence): with whence == io.SeekStart the position becomes off
func streamSeek(x *Exec, fr *frame, ins ssa.CallInstruction, c *ssa.CallCommon, args []Val, st *State, r string) (Val, string) {
	_, ref := streamKey(x, c.Args[0].Type(), args[0])
	used("(*os.File).Seek(off, io.SeekStart): positions the stream at off and returns nil, or fails")
	pos := gget(x, st, "GH_SPOS", ref)
	res := x.opaqueCall("Seek", c.Signature().Results(), st, r)
	off, whence := args[1][0].T, args[2][0].T
	f := x.vc.S.freshConst("iofail", true)
	ok := and(not(f), sx(">=", off, "0"), eq(whence, "0"))
	x.vc.S.fact(r, implies(ok, eq(res[1].T, "0")))
	x.vc.S.fact(r, implies(f, not(eq(res[1].T, "0"))))
	np := x.vc.S.freshConst("seekpos", false)
	gset(x, st, "GH_SPOS", ref, ite(ok, off, ite(eq(res[1].T, "0"), np, pos)))
	raise(x, st, "envfail", not(eq(res[1].T, "0")))
	return res, r
}

// copySource: how many bytes a complete copy from src would deliver (at most limit, if given);
// adv records how many were actually taken once the call's result is known.
func copySource(x *Exec, fr *frame, ins ssa.CallInstruction, srcV ssa.Value, src Val, st *State, r string, limit string) (n string, ref string, adv func(k string)) {
	if mi, ct, fn := x.cursorSource(srcV); ct != nil {
		d, _ := x.drain(fr, ins, x.val(fr, mi.X), ct, fn, st, r, "io.Copy")
		return d, "", func(string) {}
	}
	_, ref = streamKey(x, srcV.Type(), src)
	tr := tracked(x, st, ref)
	pos := gget(x, st, "GH_SPOS", ref)
	free := x.vc.S.freshConst("copied", false)
	x.vc.S.fact(r, sx(">=", free, "0"))
	rem := x.vc.S.def("remaining", ic(ite(eq(ref, "0"), "0", ite(tr, sub(sx("ssize", ref), pos), free)))).T
	x.vc.S.fact(r, sx(">=", rem, "0"))
	take := rem
	if limit != "" {
		take = x.vc.S.def("take", ic(ite(sx("<", limit, rem), ite(sx("<", limit, "0"), "0", limit), rem))).T
	}
	return take, ref, func(k string) { gset(x, st, "GH_SPOS", ref, add(pos, k)) }
}

// io.Copy(dst, src): everything that remains of src; an error only when reading or writing fails
func streamCopy(x *Exec, fr *frame, ins ssa.CallInstruction, c *ssa.CallCommon, args []Val, st *State, r string) (Val, string) {
	used("io.Copy(dst, src): writes all remaining bytes of src to dst and returns (n, nil); a non-nil error means a Read or Write failed (EOF is not an error)")
	n, ref, adv := copySource(x, fr, ins, c.Args[1], args[1], st, r, "")
	res := x.opaqueCall("io.Copy", c.Signature().Results(), st, r)
	f := x.vc.S.freshConst("iofail", true)
	bad := f
	if ref != "" {
		bad = or(f, and(eq(ref, "0"), tracked(x, st, ref))) // a nil *os.File cannot be read
	}
	x.vc.S.fact(r, eq(eq(res[1].T, "0"), not(bad)))
	x.vc.S.fact(r, and(sx("<=", "0", res[0].T), sx("<=", res[0].T, n), implies(not(bad), eq(res[0].T, n))))
	adv(res[0].T)
	gadd(x, st, "GH_WRITTEN", args[0][1].T, res[0].T)
	gadd(x, st, "GH_WCALLS", args[0][1].T, "1")
	raise(x, st, "envfail", f)
	return res, r
}

// io.CopyN(dst, src, n): exactly n bytes or an error
func streamCopyN(x *Exec, fr *frame, ins ssa.CallInstruction, c *ssa.CallCommon, args []Val, st *State, r string) (Val, string) {
	used("io.CopyN(dst, src, n): writes min(n, remaining) bytes; returns nil iff n bytes were written")
	lim := args[2][0].T
	n, _, adv := copySource(x, fr, ins, c.Args[1], args[1], st, r, lim)
	res := x.opaqueCall("io.CopyN", c.Signature().Results(), st, r)
	f := x.vc.S.freshConst("iofail", true)
	want := ite(sx(">=", lim, "0"), lim, "0")
	x.vc.S.fact(r, and(sx("<=", "0", res[0].T), sx("<=", res[0].T, n), implies(not(f), eq(res[0].T, n))))
	x.vc.S.fact(r, eq(eq(res[1].T, "0"), eq(res[0].T, want)))
	x.vc.S.fact(r, implies(f, not(eq(res[1].T, "0"))))
	adv(res[0].T)
	gadd(x, st, "GH_WRITTEN", args[0][1].T, res[0].T)
	gadd(x, st, "GH_WCALLS", args[0][1].T, "1")
	raise(x, st, "envfail", f)
	raise(x, st, "shortcopy", and(not(f), not(eq(res[1].T, "0"))))
	return res, r
}

// binary.Write(w, order, fixed-size value): the N bytes of the value, or a write error
func streamBinaryWrite(x *Exec, fr *frame, ins ssa.CallInstruction, c *ssa.CallCommon, args []Val, st *State, r string) (Val, string) {
	if _, _, kind := x.readerObj(fr, c.Args[0]); kind == "buffer" {
		return binaryWrite(x, fr, ins, c, args, st, r)
	}
	used("binary.Write(w, order, fixedBytes): one Write of the N bytes of the value; an error only when that Write fails")
	res := x.opaqueCall("binary.Write", c.Signature().Results(), st, r)
	n := x.vc.S.freshConst("bwN", false)
	if dmi, ok := c.Args[2].(*ssa.MakeInterface); ok {
		if N, ok := x.byteCells(dmi.X.Type()); ok {
			n = itoa(int64(N))
		}
	}
	x.vc.S.fact(r, sx(">=", n, "0"))
	gadd(x, st, "GH_WRITTEN", args[0][1].T, ite(eq(res[0].T, "0"), n, "0"))
	gadd(x, st, "GH_WCALLS", args[0][1].T, "1")
	raise(x, st, "envfail", not(eq(res[0].T, "0")))
	return res, r
}

// w.Write(p) on the connection
func streamConnWrite(x *Exec, fr *frame, ins ssa.CallInstruction, c *ssa.CallCommon, args []Val, st *State, r string) (Val, string) {
	used("Write(p) on the connection: all of p, or an error")
	res := x.opaqueCall("Write", c.Signature().Results(), st, r)
	bump(x, st, "connwrites", "1")
	ln := args[1][2].T
	x.vc.S.fact(r, implies(eq(res[1].T, "0"), eq(res[0].T, ln)))
	gadd(x, st, "GH_WRITTEN", args[0][1].T, ite(eq(res[1].T, "0"), ln, "0"))
	gadd(x, st, "GH_WCALLS", args[0][1].T, "1")
	raise(x, st, "envfail", not(eq(res[1].T, "0")))
	return res, r
}

// io.ReadFull(r, buf): fills buf (and nothing else) or fails
func streamReadFull(x *Exec, fr *frame, ins ssa.CallInstruction, c *ssa.CallCommon, args []Val, st *State, r string) (Val, string) {
	used("io.ReadFull(r, buf): writes only buf; returns (len(buf), nil) or an error")
	buf := args[1]
	x.vc.havocMem(st, not(eq("r", buf[0].T)))
	res := x.opaqueCall("io.ReadFull", c.Signature().Results(), st, r)
	x.vc.S.fact(r, implies(eq(res[1].T, "0"), eq(res[0].T, buf[2].T)))
	raise(x, st, "envfail", not(eq(res[1].T, "0")))
	return res, r
}

func streamsOver() map[string]stdModel {
	m := sitesOver()
	m["io.Copy"], m["io.CopyN"] = streamCopy, streamCopyN
	m["bufio.NewReader"], m["io.TeeReader"] = streamAliasPtr, streamAliasIface
	m["(*bufio.Reader).Discard"] = streamDiscard
	m["(*os.File).Seek"] = streamSeek
	m["(hotline.FileStore).Open"], m["os.Open"] = streamOpen, streamOpen
	m["encoding/binary.Write"] = streamBinaryWrite
	m["io.ReadFull"] = streamReadFull
	for _, w := range []string{"(io.ReadWriteCloser).Write", "(io.Writer).Write", "(io.ReadWriter).Write"} {
		m[w] = streamConnWrite
	}
	return m
}

// pluginStreams: like the call-site plug-in, with the stream contracts above; small helpers of
// the package are inlined (Depth), and a failing environment call is recorded in envfail.
func pluginStreams(r *Run, it Item) {
	key := it.Func
	if r.Eng.contracts[key] == nil {
		r.Errors = append(r.Errors, key+": no contract found for a function of the plan")
		return
	}
	env := map[string]bool{}
	for _, n := range it.Env {
		env[n] = true
	}
	fr := r.Eng.verifyFuncOpts(key, RunOpts{Trace: true, Depth: it.Depth, Over: streamsOver(), Setup: declStreams, EnvCalls: env})
	r.results[key] = fr
	if fr.Err != "" {
		r.Errors = append(r.Errors, key+": "+fr.Err)
		return
	}
	r.Funcs = append(r.Funcs, key)
	var keep []*Obligation
	n := 0
	for _, o := range fr.VC.obls {
		if o.Cover || kindOK(it.Kinds, o.Kind) {
			keep = append(keep, o)
			if !o.Cover {
				n++
			}
		}
	}
	if n == 0 {
		r.Errors = append(r.Errors, key+": the contract generated no obligation")
	}
	fr.VC.obls = keep
	r.pending = append(r.pending, pendingVC{fr.VC, r.Prop + "_" + key})
	r.Notes = append(r.Notes, fr.VC.notes...)
}
