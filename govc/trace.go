package main

// Trace: what the symbolic execution of one function saw, for the
// property-specific obligation generators (mode A).

import (
	"go/token"

	"golang.org/x/tools/go/ssa"
)

type CallSite struct {
	Instr     ssa.CallInstruction
	Fn        *ssa.Function // function containing the site (may be an inlined callee)
	Depth     int
	Callee    string // canonical callee name (see calleeName)
	Reach     string
	Args      []Val // receiver first for methods / invokes
	ArgVals   []ssa.Value
	Res       Val
	Ord       int // ordinal among the sites with the same callee in this execution
	IsGo      bool
	IsDefer   bool
	Inlined   bool
	Class     string // effect class, "" when none
	MemBefore string
	StBefore  State
	Pos       token.Pos
	Mark      int // script position right after the call
}

type StoreSite struct {
	Instr     *ssa.Store
	Fn        *ssa.Function
	Reach     string
	Ref, Off  string
	MemBefore string
}

type MapUpdateSite struct {
	Instr *ssa.MapUpdate
	Fn    *ssa.Function
	Reach string
}

type SendSite struct {
	Instr *ssa.Send
	Fn    *ssa.Function
	Reach string
	Val   Val
	Chan  Val
}

type RecvSite struct {
	Instr *ssa.UnOp
	Fn    *ssa.Function
	Reach string
}

type PanicSite struct {
	Fn    *ssa.Function
	Reach string
	Pos   token.Pos
}

type Trace struct {
	calls      []*CallSite
	stores     []*StoreSite
	mapUpdates []*MapUpdateSite
	sends      []*SendSite
	recvs      []*RecvSite
	panics     []*PanicSite
	count      map[string]int
}

func newTrace() *Trace { return &Trace{count: map[string]int{}} }

func (t *Trace) add(cs *CallSite) {
	t.count[cs.Callee]++
	cs.Ord = t.count[cs.Callee]
	t.calls = append(t.calls, cs)
}

func (t *Trace) callsTo(names ...string) []*CallSite {
	var out []*CallSite
	for _, c := range t.calls {
		for _, n := range names {
			if c.Callee == n {
				out = append(out, c)
			}
		}
	}
	return out
}
