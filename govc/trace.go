package main

// Trace: what the symbolic execution of one function saw, for the
// property-specific obligation generators (mode A).

import (
	"go/token"
	"sort"

	"golang.org/x/tools/go/ssa"
)

type CallSite struct {
	Instr     ssa.CallInstruction
	Fn        *ssa.Function // function containing the site (may be an inlined callee)
	Depth     int
	Callee    string // canonical callee name (see calleeName)
	Reach     string
	Args      []Val // receiver first for methods / invokes
	ArgVals   []ssa.Value
	Res       Val
	Ord       int // ordinal among the sites with the same callee in this execution
	IsGo      bool
	IsDefer   bool
	Inlined   bool
	Class     string // effect class, "" when none
	MemBefore string
	StBefore  State
	Pos       token.Pos
	Mark      int // script position right after the call
}

type StoreSite struct {
	Instr     *ssa.Store
	Fn        *ssa.Function
	Reach     string
	Ref, Off  string
	MemBefore string
}

type MapUpdateSite struct {
	Instr *ssa.MapUpdate
	Fn    *ssa.Function
	Reach string
}

type SendSite struct {
	Instr *ssa.Send
	Fn    *ssa.Function
	Reach string
	Val   Val
	Chan  Val
}

type RecvSite struct {
	Instr *ssa.UnOp
	Fn    *ssa.Function
	Reach string
}

type PanicSite struct {
	Fn    *ssa.Function
	Reach string
	Pos   token.Pos
}

type Trace struct {
	calls      []*CallSite
	stores     []*StoreSite
	mapUpdates []*MapUpdateSite
	sends      []*SendSite
	recvs      []*RecvSite
	panics     []*PanicSite
	count      map[string]int
	srcOrd     map[ssa.Instruction]int
	base       map[string]int
}

func newTrace() *Trace { return &Trace{count: map[string]int{}} }

// add records a call site.  The ordinal #k of a site of the function under contract is its rank in
// SOURCE order among that function's calls to the same callee (stable under block reordering);
// sites inside inlined callees are numbered after them in execution order.
func (t *Trace) add(cs *CallSite) {
	if cs.Depth == 0 && t.srcOrd != nil {
		if k, ok := t.srcOrd[cs.Instr]; ok {
			cs.Ord = k
			t.calls = append(t.calls, cs)
			return
		}
	}
	t.count[cs.Callee]++
	cs.Ord = t.base[cs.Callee] + t.count[cs.Callee]
	t.calls = append(t.calls, cs)
}

// indexSites numbers the call instructions of fn per callee in source order.
func (t *Trace) indexSites(fn *ssa.Function, name func(*ssa.CallCommon) string) {
	type site struct {
		ins ssa.Instruction
		pos token.Pos
		seq int
	}
	by := map[string][]site{}
	seq := 0
	for _, b := range fn.Blocks {
		for _, ins := range b.Instrs {
			ci, ok := ins.(ssa.CallInstruction)
			if !ok {
				continue
			}
			seq++
			n := name(ci.Common())
			by[n] = append(by[n], site{ins, ins.Pos(), seq})
		}
	}
	t.srcOrd = map[ssa.Instruction]int{}
	t.base = map[string]int{}
	for n, ss := range by {
		sort.SliceStable(ss, func(i, j int) bool {
			if ss[i].pos != ss[j].pos {
				return ss[i].pos < ss[j].pos
			}
			return ss[i].seq < ss[j].seq
		})
		for k, s := range ss {
			t.srcOrd[s.ins] = k + 1
		}
		t.base[n] = len(ss)
	}
}

func (t *Trace) callsTo(names ...string) []*CallSite {
	var out []*CallSite
	for _, c := range t.calls {
		for _, n := range names {
			if c.Callee == n {
				out = append(out, c)
			}
		}
	}
	return out
}
