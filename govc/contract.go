package main

// Contracts: Gobra-style structured comments kept in comment-only files guarded by
// the build tag `verif`.
//
//	//@ func (f *Field) Read(p []byte) (n int, err error)
//	//@   requires ...            precondition (Go expression + pseudo-functions)
//	//@   ensures  ...            postcondition
//	//@   let W := ...            ghost abbreviation usable in later clauses
//	//@   modifies a, b           frame (used when the function is called modularly)
//	//@   nopanic                 every index / slice / nil dereference is an obligation
//	//@   loop 1 invariant ...    invariant of the 1st loop (ordinal by header block order)
//	//@   loop 1 modifies ...
//	//@   <word> ...              any other directive is kept raw for the property plug-ins

import (
	"fmt"
	"go/ast"
	"go/parser"
	"go/token"
	"strconv"
	"strings"

	"golang.org/x/tools/go/ssa"
)

type Clause struct {
	Text string
	Expr ast.Expr
	Line int
	Tag  string // property the clause belongs to ("" = all); set by a `property Cxx` line in the block
}

type LoopSpec struct {
	Invariants []Clause
	Modifies   []Clause
	Decreases  []Clause
	// `loop k reaches <callee|mapupdate> [when E]`: every iteration that completes (comes back to the
	// head) has passed through such a site (when E holds at the back edge)
	Reaches []LoopReach
	// `loop k complete`: the loop runs to exhaustion -- the only way out is the header's own exit
	// edge (no break, no return from the body)
	Complete    bool
	CompleteTag string
	// Always: `loop k always` -- every return of the function is dominated by the loop's header (no
	// path leaves the function without having gone through the loop)
	Always    bool
	AlwaysTag string
	// programmatic clauses supplied by a plug-in (same role as the textual ones)
	InvFns []func(env *Env, phis []*ssa.Phi) string
	ModFns []func(env *Env) string
}

type LoopReach struct {
	What string
	When *Clause
	Line int
	Tag  string
}

type Let struct {
	Name string
	Cl   Clause
	// position among clauses: lets are evaluated lazily in the state of the clause using them
}

type Contract struct {
	Key      string
	File     string
	Line     int
	Header   string
	Params   []string // receiver first
	Results  []string
	Lets     []Let
	Requires []Clause
	Ensures  []Clause
	Modifies []Clause
	NoPanic  bool
	Trusted  bool // contract is assumed, body not verified (listed as assumption)
	Loops    map[int]*LoopSpec
	Raw      map[string][]string
	Asserts  []SiteAssert
}

// SiteAssert: `before call <callee>#k assert <expr>`
type SiteAssert struct {
	// Assume: `after call <callee>[#k] assume <expr>` -- a stated assumption about what the
	// environment returned at that site (res0, res1, ...: the results); reported in the evidence
	Assume bool
	// Store: `before store T.f assert E` -- at every store to field f of a struct of type T
	// (`target` is the pointer to the struct, `val` the value stored)
	Store bool
	Callee   string
	Ord      int  // 0 = every site
	Optional bool // may match no site at all (policy assertion)
	Cl       Clause
}

var directives = map[string]bool{
	"requires": true, "ensures": true, "let": true, "modifies": true, "nopanic": true, "loop": true,
	"mode": true, "trusted": true, "before": true, "after": true, "once": true, "some": true,
}

func parseContracts(src, pkgName, file string) ([]*Contract, map[string]*define, error) {
	defs := map[string]*define{}
	var out []*Contract
	var cur *Contract
	var lastKind string
	var lastAppend func(string)
	curTag := ""
	type defText struct {
		d    *define
		text *string
		line int
	}
	var defTexts []defText
	flush := func() {}
	lines := strings.Split(src, "\n")
	for i, ln := range lines {
		t := strings.TrimSpace(ln)
		if !strings.HasPrefix(t, "//@") {
			continue
		}
		body := strings.TrimSpace(strings.TrimPrefix(t, "//@"))
		if body == "" {
			continue
		}
		// strip trailing comment
		if k := strings.Index(body, " // "); k >= 0 {
			body = strings.TrimSpace(body[:k])
		}
		word, rest := body, ""
		if k := strings.IndexAny(body, " \t"); k >= 0 {
			word, rest = body[:k], strings.TrimSpace(body[k+1:])
		}
		if word == "define" {
			// define name(a, b) := expr
			k := strings.Index(rest, ":=")
			if k < 0 {
				return nil, nil, fmt.Errorf("%s:%d: define needs :=", file, i+1)
			}
			head := strings.TrimSpace(rest[:k])
			d := &define{}
			name := head
			if p := strings.Index(head, "("); p >= 0 {
				name = strings.TrimSpace(head[:p])
				for _, a := range strings.Split(strings.TrimSuffix(head[p+1:], ")"), ",") {
					if a = strings.TrimSpace(a); a != "" {
						d.params = append(d.params, a)
					}
				}
			}
			text := strings.TrimSpace(rest[k+2:])
			defs[name] = d
			cur = nil
			pending := &text
			dd := d
			lastAppend = func(s string) { *pending += " " + s }
			defTexts = append(defTexts, defText{dd, pending, i + 1})
			continue
		}
		if word == "func" {
			flush()
			c, err := parseHeader(rest, pkgName)
			if err != nil {
				return nil, nil, fmt.Errorf("%s:%d: %v", file, i+1, err)
			}
			c.File, c.Line = file, i+1
			out = append(out, c)
			cur = c
			curTag = ""
			lastAppend = nil
			continue
		}
		if cur == nil {
			if lastAppend != nil && !directives[word] && !isRawDirective(word) {
				lastAppend(body)
			}
			continue // free-standing comment (spec prose)
		}
		_ = lastKind
		if word == "property" {
			curTag = strings.TrimSpace(rest)
			lastAppend = nil
			continue
		}
		isDirective := directives[word] || (len(word) > 0 && word[0] >= 'a' && word[0] <= 'z' && isRawDirective(word))
		if !isDirective {
			if lastAppend == nil {
				return nil, nil, fmt.Errorf("%s:%d: continuation without clause: %s", file, i+1, body)
			}
			lastAppend(body)
			continue
		}
		line := i + 1
		switch word {
		case "requires":
			cur.Requires = append(cur.Requires, Clause{Text: rest, Line: line, Tag: curTag})
			c := cur
			lastAppend = func(s string) { c.Requires[len(c.Requires)-1].Text += " " + s }
		case "ensures":
			cur.Ensures = append(cur.Ensures, Clause{Text: rest, Line: line, Tag: curTag})
			c := cur
			lastAppend = func(s string) { c.Ensures[len(c.Ensures)-1].Text += " " + s }
		case "modifies":
			for _, m := range splitTop(rest, ',') {
				cur.Modifies = append(cur.Modifies, Clause{Text: strings.TrimSpace(m), Line: line, Tag: curTag})
			}
			lastAppend = nil
		case "let":
			k := strings.Index(rest, ":=")
			if k < 0 {
				return nil, nil, fmt.Errorf("%s:%d: let needs :=", file, line)
			}
			cur.Lets = append(cur.Lets, Let{Name: strings.TrimSpace(rest[:k]), Cl: Clause{Text: strings.TrimSpace(rest[k+2:]), Line: line, Tag: curTag}})
			c := cur
			lastAppend = func(s string) { c.Lets[len(c.Lets)-1].Cl.Text += " " + s }
		case "nopanic":
			cur.NoPanic = true
			lastAppend = nil
		case "trusted":
			cur.Trusted = true
			lastAppend = nil
		case "mode":
			cur.Raw["mode"] = append(cur.Raw["mode"], rest)
			lastAppend = nil
		case "loop":
			f := strings.Fields(rest)
			if len(f) < 3 && !(len(f) == 2 && (f[1] == "complete" || f[1] == "always")) {
				return nil, nil, fmt.Errorf("%s:%d: loop <n> invariant|modifies|decreases <expr>", file, line)
			}
			n, err := strconv.Atoi(f[0])
			if err != nil {
				return nil, nil, fmt.Errorf("%s:%d: loop ordinal: %v", file, line, err)
			}
			ls := cur.Loops[n]
			if ls == nil {
				ls = &LoopSpec{}
				cur.Loops[n] = ls
			}
			expr := strings.TrimSpace(rest[strings.Index(rest, f[1])+len(f[1]):])
			switch f[1] {
			case "invariant":
				ls.Invariants = append(ls.Invariants, Clause{Text: expr, Line: line, Tag: curTag})
				lastAppend = func(s string) { ls.Invariants[len(ls.Invariants)-1].Text += " " + s }
			case "modifies":
				for _, m := range splitTop(expr, ',') {
					ls.Modifies = append(ls.Modifies, Clause{Text: strings.TrimSpace(m), Line: line, Tag: curTag})
				}
				lastAppend = nil
			case "decreases":
				ls.Decreases = append(ls.Decreases, Clause{Text: expr, Line: line, Tag: curTag})
				lastAppend = nil
			case "complete":
				ls.Complete, ls.CompleteTag = true, curTag
				lastAppend = nil
			case "always":
				ls.Always, ls.AlwaysTag = true, curTag
				lastAppend = nil
			case "reaches":
				lr := LoopReach{What: expr, Line: line, Tag: curTag}
				if k := strings.Index(expr, " when "); k >= 0 {
					lr.What = strings.TrimSpace(expr[:k])
					lr.When = &Clause{Text: strings.TrimSpace(expr[k+6:]), Line: line, Tag: curTag}
				}
				ls.Reaches = append(ls.Reaches, lr)
				lastAppend = nil
			default:
				return nil, nil, fmt.Errorf("%s:%d: unknown loop clause %q", file, line, f[1])
			}
		case "before":
			// before call <callee>[#k] assert <expr>
			// before any call <callee> assert <expr>: a policy on every such call, of which there may be none
			optional := false
			if strings.HasPrefix(rest, "any call ") || strings.HasPrefix(rest, "any store ") {
				optional = true
				rest = rest[4:]
			}
			k := strings.Index(rest, " assert ")
			if strings.HasPrefix(rest, "store ") && k >= 0 {
				cur.Asserts = append(cur.Asserts, SiteAssert{Store: true, Optional: optional, Callee: strings.TrimSpace(rest[6:k]), Cl: Clause{Text: strings.TrimSpace(rest[k+8:]), Line: line, Tag: curTag}})
				c := cur
				lastAppend = func(s string) { c.Asserts[len(c.Asserts)-1].Cl.Text += " " + s }
				break
			}
			if !strings.HasPrefix(rest, "call ") || k < 0 {
				return nil, nil, fmt.Errorf("%s:%d: before call <callee>[#k] assert <expr>", file, line)
			}
			site := strings.TrimSpace(rest[5:k])
			ord := 0
			if h := strings.LastIndex(site, "#"); h >= 0 {
				if n, err := strconv.Atoi(site[h+1:]); err == nil {
					ord = n
					site = site[:h]
				}
			}
			cur.Asserts = append(cur.Asserts, SiteAssert{Callee: site, Ord: ord, Optional: optional, Cl: Clause{Text: strings.TrimSpace(rest[k+8:]), Line: line, Tag: curTag}})
			c := cur
			lastAppend = func(s string) { c.Asserts[len(c.Asserts)-1].Cl.Text += " " + s }
		case "after":
			// after call <callee>[#k] assume <expr>
			k := strings.Index(rest, " assume ")
			if !strings.HasPrefix(rest, "call ") || k < 0 {
				return nil, nil, fmt.Errorf("%s:%d: after call <callee>[#k] assume <expr>", file, line)
			}
			site := strings.TrimSpace(rest[5:k])
			ord := 0
			if h := strings.LastIndex(site, "#"); h >= 0 {
				if n, err := strconv.Atoi(site[h+1:]); err == nil {
					ord = n
					site = site[:h]
				}
			}
			cur.Asserts = append(cur.Asserts, SiteAssert{Assume: true, Callee: site, Ord: ord, Cl: Clause{Text: strings.TrimSpace(rest[k+8:]), Line: line, Tag: curTag}})
			c := cur
			lastAppend = func(s string) { c.Asserts[len(c.Asserts)-1].Cl.Text += " " + s }
		default:
			cur.Raw[word] = append(cur.Raw[word], rest)
			if word == "cursor" {
				// the clauses the directive expands to belong to the properties the block is tagged for
				cur.Raw["cursor.tag"] = []string{curTag}
			}
			c, w := cur, word
			lastAppend = func(s string) { c.Raw[w][len(c.Raw[w])-1] += " " + s }
		}
	}
	flush()
	for _, c := range out {
		if cur := c.Raw["cursor"]; len(cur) > 0 {
			if err := expandCursor(c, cur[0]); err != nil {
				return nil, nil, fmt.Errorf("%s:%d: %v", file, c.Line, err)
			}
		}
	}
	// parse expressions
	for _, c := range out {
		var err error
		fix := func(cl *Clause) {
			if err != nil {
				return
			}
			cl.Expr, err = parseSpecExpr(cl.Text)
			if err != nil {
				err = fmt.Errorf("%s:%d: %v in %q", c.File, cl.Line, err, cl.Text)
			}
		}
		for i := range c.Requires {
			fix(&c.Requires[i])
		}
		for i := range c.Ensures {
			fix(&c.Ensures[i])
		}
		for i := range c.Modifies {
			fix(&c.Modifies[i])
		}
		for i := range c.Lets {
			fix(&c.Lets[i].Cl)
		}
		for i := range c.Asserts {
			fix(&c.Asserts[i].Cl)
		}
		for _, l := range c.Loops {
			for i := range l.Invariants {
				fix(&l.Invariants[i])
			}
			for i := range l.Modifies {
				fix(&l.Modifies[i])
			}
			for i := range l.Decreases {
				fix(&l.Decreases[i])
			}
			for i := range l.Reaches {
				if l.Reaches[i].When != nil {
					fix(l.Reaches[i].When)
				}
			}
		}
		if err != nil {
			return nil, nil, err
		}
	}
	for _, dt := range defTexts {
		ex, err := parseSpecExpr(*dt.text)
		if err != nil {
			return nil, nil, fmt.Errorf("%s:%d: %v in %q", file, dt.line, err, *dt.text)
		}
		dt.d.body = ex
	}
	return out, defs, nil
}

var rawDirectives = map[string]bool{
	"kind": true, "effect": true, "governs": true, "ungoverned": true, "denial": true, "assume_stable": true,
	"record_writer": true, "stream_writer": true, "pure": true, "gate": true, "note": true,
	"expect": true, "replay": true, "first_defer": true, "balance": true, "guarded_by": true, "cursor_flow": true, "once": true, "cursor.tag": true, "crash_atomic": true,
	"wire": true, "cursor": true, "split": true, "roundtrip": true, "anyname": true, "site": true,
}

func isRawDirective(w string) bool { return rawDirectives[w] }

func parseHeader(h, pkgName string) (*Contract, error) {
	h = strings.ReplaceAll(h, "$", "_DOLLAR_")
	src := "package p\nfunc " + h + " {}"
	fset := token.NewFileSet()
	f, err := parser.ParseFile(fset, "", src, 0)
	if err != nil {
		return nil, fmt.Errorf("contract header %q: %v", h, err)
	}
	fd := f.Decls[0].(*ast.FuncDecl)
	c := &Contract{Header: h, Loops: map[int]*LoopSpec{}, Raw: map[string][]string{}}
	name := strings.ReplaceAll(fd.Name.Name, "_DOLLAR_", "$")
	key := name
	if fd.Recv != nil && len(fd.Recv.List) == 1 {
		r := fd.Recv.List[0]
		rt := ""
		switch x := r.Type.(type) {
		case *ast.StarExpr:
			rt = "(*" + x.X.(*ast.Ident).Name + ")"
		case *ast.Ident:
			rt = "(" + x.Name + ")"
		}
		key = rt + "." + name
		if len(r.Names) == 1 {
			c.Params = append(c.Params, r.Names[0].Name)
		} else {
			c.Params = append(c.Params, "_recv")
		}
	}
	c.Key = pkgName + "." + key
	for _, p := range fd.Type.Params.List {
		if len(p.Names) == 0 {
			c.Params = append(c.Params, "_")
		}
		for _, n := range p.Names {
			c.Params = append(c.Params, n.Name)
		}
	}
	if fd.Type.Results != nil {
		k := 0
		for _, p := range fd.Type.Results.List {
			if len(p.Names) == 0 {
				c.Results = append(c.Results, fmt.Sprintf("r%d", k))
				k++
			}
			for _, n := range p.Names {
				c.Results = append(c.Results, n.Name)
				k++
			}
		}
	}
	return c, nil
}

// splitTop splits s at sep occurring at bracket depth 0.
func splitTop(s string, sep byte) []string {
	var out []string
	depth, last := 0, 0
	for i := 0; i < len(s); i++ {
		switch s[i] {
		case '(', '[', '{':
			depth++
		case ')', ']', '}':
			depth--
		default:
			if s[i] == sep && depth == 0 {
				out = append(out, s[last:i])
				last = i + 1
			}
		}
	}
	out = append(out, s[last:])
	return out
}

// parseSpecExpr parses a Go expression extended with `==>` (right associative,
// lowest precedence) which is rewritten to implies(a, b).
func parseSpecExpr(text string) (ast.Expr, error) {
	return parser.ParseExpr(rewriteImplies(text))
}

func rewriteImplies(s string) string {
	// find the first top-level ==> ; everything left is the antecedent
	depth := 0
	for i := 0; i+2 < len(s); i++ {
		switch s[i] {
		case '(', '[', '{':
			depth++
		case ')', ']', '}':
			depth--
		}
		if depth == 0 && s[i] == '=' && s[i+1] == '=' && s[i+2] == '>' {
			return "implies(" + rewriteInner(s[:i]) + ", " + rewriteImplies(s[i+3:]) + ")"
		}
	}
	return rewriteInner(s)
}

// rewriteInner rewrites ==> inside parenthesised sub-expressions.
func rewriteInner(s string) string {
	if !strings.Contains(s, "==>") {
		return s
	}
	var b strings.Builder
	i := 0
	for i < len(s) {
		if s[i] == '(' {
			// find matching paren
			depth, j := 0, i
			for ; j < len(s); j++ {
				if s[j] == '(' {
					depth++
				} else if s[j] == ')' {
					depth--
					if depth == 0 {
						break
					}
				}
			}
			inner := s[i+1 : j]
			parts := splitTop(inner, ',')
			for k := range parts {
				parts[k] = rewriteImplies(parts[k])
			}
			b.WriteString("(" + strings.Join(parts, ",") + ")")
			i = j + 1
			continue
		}
		b.WriteByte(s[i])
		i++
	}
	return b.String()
}

// expandCursor generates the standard cursor contract of an offset-tracking Read method:
//
//	cursor <wire define> <offset field>
//
// Every call returns the next min(len(p), remaining) bytes of W = wire(recv), advances
// the offset by that amount, reports io.EOF exactly when nothing remains, and leaves
// the wire image unchanged.
func expandCursor(c *Contract, spec string) error {
	f := strings.Fields(spec)
	if (len(f) != 2 && len(f) != 3) || len(c.Params) < 2 || len(c.Results) < 2 {
		return fmt.Errorf("cursor <wire define> <offset field> on a method (recv) Read(p []byte) (n int, err error)")
	}
	w, off := f[0], c.Params[0]+"."+f[1]
	x, p, n, e := c.Params[0], c.Params[1], c.Results[0], c.Results[1]
	tag := ""
	if t := c.Raw["cursor.tag"]; len(t) > 0 {
		tag = t[0]
	}
	add := func(dst *[]Clause, text string) { *dst = append(*dst, Clause{Text: text, Line: c.Line, Tag: tag}) }
	add(&c.Requires, fmt.Sprintf("%s != nil && %s >= 0", x, off))
	if len(f) == 3 {
		add(&c.Requires, fmt.Sprintf("%s(%s)", f[2], x))
		add(&c.Ensures, fmt.Sprintf("%s(%s)", f[2], x))
	}
	c.Lets = append(c.Lets, Let{Name: "W", Cl: Clause{Text: fmt.Sprintf("old(%s(%s))", w, x), Line: c.Line}})
	add(&c.Ensures, fmt.Sprintf("old(%s) >= len(W) ==> %s == 0 && is_eof(%s) && %s == old(%s)", off, n, e, off, off))
	add(&c.Ensures, fmt.Sprintf("old(%s) < len(W) ==> %s == nil && %s == min(len(%s), len(W)-old(%s)) && %s == old(%s)+%s", off, e, n, p, off, off, off, n))
	add(&c.Ensures, fmt.Sprintf("forallcut(i, 0, %s, W, old(%s)+i, %s[i] == W[old(%s)+i])", n, off, p, off))
	add(&c.Ensures, fmt.Sprintf("%s(%s) == W", w, x))
	c.NoPanic = true
	return nil
}

// tagHas: a clause tagged "C08 C10" belongs to both properties; an untagged clause to all.
func tagHas(tag, prop string) bool {
	if tag == "" || prop == "" {
		return true
	}
	for _, t := range strings.Fields(tag) {
		if t == prop {
			return true
		}
	}
	return false
}

// filterProperty drops the clauses that belong to another property.
func (c *Contract) filterProperty(prop string) {
	keep := func(cs []Clause) []Clause {
		var out []Clause
		for _, cl := range cs {
			if tagHas(cl.Tag, prop) {
				out = append(out, cl)
			}
		}
		return out
	}
	c.Requires = keep(c.Requires)
	c.Ensures = keep(c.Ensures)
	c.Modifies = keep(c.Modifies)
	var as []SiteAssert
	for _, a := range c.Asserts {
		if tagHas(a.Cl.Tag, prop) {
			as = append(as, a)
		}
	}
	c.Asserts = as
	for _, l := range c.Loops {
		l.Invariants = keep(l.Invariants)
		var rs []LoopReach
		for _, lr := range l.Reaches {
			if tagHas(lr.Tag, prop) {
				rs = append(rs, lr)
			}
		}
		l.Reaches = rs
		if l.Complete && !tagHas(l.CompleteTag, prop) {
			l.Complete = false
		}
		if l.Always && !tagHas(l.AlwaysTag, prop) {
			l.Always = false
		}
		l.Modifies = keep(l.Modifies)
	}
}
