package main

import (
	"fmt"
	"os"
	"time"
)

func main() {
	if len(os.Args) < 2 {
		fmt.Println("usage: govc fn <key>...")
		os.Exit(2)
	}
	switch os.Args[1] {
	case "check":
		os.Exit(checkMain(os.Args[2:]))
	case "fn":
		t0 := time.Now()
		e, err := loadEngine("/repo", "/verif/contracts")
		if err != nil {
			fmt.Println("load:", err)
			os.Exit(2)
		}
		fmt.Println("loaded", time.Since(t0))
		for _, key := range os.Args[2:] {
			fr := e.verifyFunc(key, false, 4)
			if fr.Err != "" {
				fmt.Println(key, "ERROR", fr.Err)
				continue
			}
			discharge(fr.VC, "/tmp/govc_smt", key, 16, 5, 20)
			for _, o := range fr.VC.obls {
				fmt.Printf("  %-70s %-12s %s %.2fs\n", o.Name, o.Status, o.Solver, o.Secs)
			}
			for _, n := range fr.VC.notes {
				fmt.Println("  note:", n)
			}
		}
	}
}
