package main

import (
	"encoding/json"
	"fmt"
	"os"
	"time"
)

func main() {
	if len(os.Args) < 2 {
		fmt.Println("usage: govc fn <key>...")
		os.Exit(2)
	}
	switch os.Args[1] {
	case "check":
		os.Exit(checkMain(os.Args[2:]))
	case "plans":
		// the plans as JSON (used by tools/mkdesign.py to generate the per-property section of DESIGN.md)
		b, _ := json.MarshalIndent(plans, "", " ")
		fmt.Println(string(b))
	case "replay":
		// ./check replay <replay.json>: print how to re-run a stored replay
		if len(os.Args) < 3 {
			fmt.Println("usage: govc replay <replay.json>")
			os.Exit(2)
		}
		b, err := os.ReadFile(os.Args[2])
		if err != nil {
			fmt.Println(err)
			os.Exit(2)
		}
		var rp map[string]any
		json.Unmarshal(b, &rp)
		fmt.Println("obligation:", rp["obligation"])
		fmt.Println("verdict:   ", rp["why"])
		if t, ok := rp["replay_test"].(string); ok {
			fmt.Println("how to run:", rp["replay_cmd"])
			fmt.Println("---- replay_test ----")
			fmt.Println(t)
		}
	case "fn":
		t0 := time.Now()
		e, err := loadEngine("/repo", "/verif/contracts", os.Getenv("GOVC_PROP"))
		if err != nil {
			fmt.Println("load:", err)
			os.Exit(2)
		}
		fmt.Println("loaded", time.Since(t0))
		for _, key := range os.Args[2:] {
			fr := e.verifyFunc(key, true, 4)
			if fr.Err != "" {
				fmt.Println(key, "ERROR", fr.Err)
				continue
			}
			discharge(fr.VC, "/tmp/govc_smt", key, 16, 5, 20)
			for _, o := range fr.VC.obls {
				fmt.Printf("  %-70s %-12s %s %.2fs\n", o.Name, o.Status, o.Solver, o.Secs)
			}
			for _, n := range fr.VC.notes {
				fmt.Println("  note:", n)
			}
		}
	}
}
