package main

import (
	"strconv"
	"go/token"
	"fmt"
	"go/types"
	"sort"
	"strings"

	"golang.org/x/tools/go/ssa"
)

type FuncResult struct {
	Key      string
	VC       *VC
	Trace    *Trace
	Err      string // engine limitation / contract error: the function is then not claimed
	Frame    *frame
	Exec     *Exec
	Res      []Val
	Out      State
	OutReach string
}

// symbolic parameter values + entry state
func (x *Exec) entry(fn *ssa.Function) ([]Val, State) {
	S := x.vc.S
	st := State{Maps: map[string]string{}, Ghost: map[string]string{}}
	st.Mem = x.vc.declMem("M0")
	x.vc.baseMem = st.Mem
	S.raw("(declare-fun A0 () Int)")
	S.raw(fmt.Sprintf("(assert (> A0 %d))", maxGlobals))
	st.Alloc = "A0"
	var args []Val
	// captured variables of a closure verified on its own are further inputs: non-nil pointers
	// to the captured cells, pairwise distinct
	type inVar interface {
		Name() string
		Type() types.Type
	}
	var ins []inVar
	for _, p := range fn.Params {
		ins = append(ins, p)
	}
	for _, fv := range fn.FreeVars {
		ins = append(ins, fv)
	}
	for k, p := range ins {
		if k >= len(fn.Params) {
			l := x.vc.ls.of(p.Type())
			v := make(Val, len(l.cells))
			for i, ci := range l.cells {
				n := fmt.Sprintf("fv_%s_%d", sanitize(p.Name()), i)
				S.declConst(n, ci.kind == kBool)
				v[i] = Cell{T: n, B: ci.kind == kBool}
			}
			x.typeFacts("true", p.Type(), v, &st)
			S.raw("(assert " + not(eq(v[0].T, "0")) + ")")
			x.vc.nonNil[v[0].T] = true
			if u, ok := p.Type().Underlying().(*types.Pointer); ok {
				x.validFacts(st.Mem, u.Elem(), v[0].T, v[1].T, "true", 2)
			}
			for _, b := range x.entryBinds {
				S.raw("(assert " + not(eq(b[0].T, v[0].T)) + ")")
				x.vc.markDistinct(b[0].T, v[0].T)
			}
			x.entryBinds = append(x.entryBinds, v)
			continue
		}
		l := x.vc.ls.of(p.Type())
		v := make(Val, len(l.cells))
		for i, ci := range l.cells {
			n := fmt.Sprintf("p_%s_%d", sanitize(p.Name()), i)
			S.declConst(n, ci.kind == kBool)
			v[i] = Cell{T: n, B: ci.kind == kBool}
		}
		x.typeFacts("true", p.Type(), v, &st)
		args = append(args, v)
		switch u := p.Type().Underlying().(type) {
		case *types.Pointer:
			x.validFacts(st.Mem, u.Elem(), v[0].T, v[1].T, not(eq(v[0].T, "0")), 3)
		case *types.Slice:
			x.sliceElemFacts(st.Mem, u.Elem(), v[0].T, v[1].T, v[2].T, not(eq(v[0].T, "0")), 2)
		case *types.Struct:
			// struct passed by value: follow its slices
			vv := v
			x.walkRefs(p.Type(), 0, func(cell int, ft types.Type) {
				if sl, ok := ft.Underlying().(*types.Slice); ok {
					x.sliceElemFacts(st.Mem, sl.Elem(), vv[cell].T, vv[cell+1].T, vv[cell+2].T, not(eq(vv[cell].T, "0")), 2)
				}
			})
		}
	}
	// what a captured variable holds (a slice, a pointer) is not one of the captured cells
	for bi, b := range x.entryBinds {
		pt, ok := fn.FreeVars[bi].Type().Underlying().(*types.Pointer)
		if !ok {
			continue
		}
		bb := b
		x.walkRefs(pt.Elem(), 0, func(cell int, ft types.Type) {
			inner := sel(st.Mem, bb[0].T, add(bb[1].T, itoa(int64(cell))))
			for _, c := range x.entryBinds {
				S.raw("(assert " + not(eq(inner, c[0].T)) + ")")
				x.vc.markDistinct(inner, c[0].T)
			}
		})
	}
	// distinct pointer-like parameters do not alias (stated assumption, see DESIGN 2.4)
	var refs []string
	for i, p := range fn.Params {
		switch p.Type().Underlying().(type) {
		case *types.Pointer, *types.Slice:
			refs = append(refs, args[i][0].T)
		}
	}
	for i := 0; i < len(refs); i++ {
		for j := i + 1; j < len(refs); j++ {
			S.raw("(assert " + or(not(eq(refs[i], refs[j])), eq(refs[i], "0")) + ")")
			x.vc.markDistinct(refs[i], refs[j])
		}
	}
	// a []byte parameter does not alias memory reachable from the other parameters
	// (stated assumption: callers pass scratch buffers / request payloads)
	for i, p := range fn.Params {
		sl, ok := p.Type().Underlying().(*types.Slice)
		if !ok || x.vc.ls.size(sl.Elem()) != 1 {
			continue
		}
		for j, q := range fn.Params {
			pt, ok := q.Type().Underlying().(*types.Pointer)
			if !ok || i == j {
				continue
			}
			qq := args[j]
			pi := args[i]
			x.walkRefs(pt.Elem(), 0, func(cell int, ft types.Type) {
				inner := sel(st.Mem, qq[0].T, add(qq[1].T, itoa(int64(cell))))
				S.raw("(assert " + or(not(eq(pi[0].T, inner)), eq(pi[0].T, "0")) + ")")
				x.vc.markDistinct(pi[0].T, inner)
			})
		}
	}
	// slices and pointers stored inside *q do not point back into the object q itself,
	// nor into another parameter's object
	for j, q := range fn.Params {
		pt, ok := q.Type().Underlying().(*types.Pointer)
		if !ok {
			continue
		}
		qq := args[j]
		x.walkRefs(pt.Elem(), 0, func(cell int, ft types.Type) {
			inner := sel(st.Mem, qq[0].T, add(qq[1].T, itoa(int64(cell))))
			for _, rf := range refs {
				S.raw("(assert " + or(not(eq(rf, inner)), eq(rf, "0")) + ")")
				x.vc.markDistinct(rf, inner)
			}
		})
	}
	return args, st
}

// verifyFunc generates the obligations of one function under contract.
type RunOpts struct {
	Trace         bool
	Depth         int
	Over          map[string]stdModel
	Opaque        map[string]bool
	Setup         func(x *Exec) // extra declarations before execution
	Loops         map[int]*LoopSpec
	NoModular     bool
	EnvCalls      map[string]bool
	PreTaggedOnly bool
}

func (e *Engine) verifyFunc(key string, withTrace bool, maxDepth int) (fr *FuncResult) {
	return e.verifyFuncOpts(key, RunOpts{Trace: withTrace, Depth: maxDepth})
}

func (e *Engine) verifyFuncOpts(key string, o RunOpts) (fr *FuncResult) {
	withTrace, maxDepth := o.Trace, o.Depth
	fr = &FuncResult{Key: key}
	fn := e.funcs[key]
	if fn == nil {
		fr.Err = "function not found in /repo: " + key
		return
	}
	ct := e.contracts[key]
	vc := &VC{S: newScript(), ls: newLayouts(), mapFams: map[string]*mapFam{}, nonNil: map[string]bool{},
		mem: map[string]*memNode{}, allocP: map[string][]string{}, bornLt: map[string]string{}, isAlloc: map[string]bool{}, allocAfter: map[string]string{}, distinct: map[[2]string]bool{}, escaped: map[string]bool{}}
	fr.VC = vc
	x := &Exec{eng: e, vc: vc, top: fn, topC: ct, maxDepth: maxDepth, nonNil: vc.nonNil, over: o.Over, opaque: o.Opaque, loopSpecs: o.Loops, noModular: o.NoModular, envCalls: o.EnvCalls, preTaggedOnly: o.PreTaggedOnly}
	fr.Exec = x
	if withTrace {
		x.trace = newTrace()
		x.trace.indexSites(fn, x.calleeName)
		fr.Trace = x.trace
	}
	if ct != nil {
		x.checkPanics = ct.NoPanic
	}
	defer func() {
		if r := recover(); r != nil {
			switch v := r.(type) {
			case unsupported:
				fr.Err = "unsupported: " + string(v)
			case specErr:
				fr.Err = "contract error: " + string(v)
			default:
				panic(r)
			}
		}
	}()
	x.prelude()
	if o.Setup != nil {
		o.Setup(x)
	}
	args, st := x.entry(fn)
	// ghost objects exist (and are stable) from the start, so that no early havoc reaches them
	for _, g := range ghostObjs {
		ghostObj(x, g)
	}
	// preconditions
	pre := &frame{fn: fn, c: ct, vals: map[ssa.Value]Val{}, entrySt: st.clone(), entryVals: args, top: true, dbg: map[string][]dbgRef{}}
	if ct != nil {
		env := x.specEnv(pre, &st, nil, 0)
		for _, rq := range ct.Requires {
			x.qRegister = true
			t := x.evalBool(env, rq.Expr)
			x.qRegister = false
			vc.S.fact("true", t)
			for _, cj := range conjuncts(t) {
				if strings.HasPrefix(cj, "(not (= ") && strings.HasSuffix(cj, " 0))") {
					vc.nonNil[cj[8:len(cj)-4]] = true
				}
			}
		}
		if len(ct.Requires) > 0 {
			vc.cover(key+"#cover:requires", "true", "")
		}
	}
	res, out, outReach, frm := x.run(fn, ct, args, x.entryBinds, st, "true", 0, true)
	fr.Frame, fr.Res, fr.Out, fr.OutReach = frm, res, out, outReach
	if ct != nil && outReach != "false" {
		env := x.specEnv(frm, &out, nil, 0)
		rt := fn.Signature.Results()
		for j := 0; j < rt.Len() && j < len(ct.Results); j++ {
			env.names[ct.Results[j]] = svOfVal(res[j], rt.At(j).Type())
		}
		// `split p lo hi`: case analysis on an integer parameter with a finite range (complete: the
		// precondition must confine p to [lo, hi), which is itself an obligation)
		var cases []string
		var caseNames []string
		if sp := ct.Raw["split"]; len(sp) > 0 {
			var pn string
			var lo, hi int
			if n, _ := fmt.Sscanf(sp[0], "%s %d %d", &pn, &lo, &hi); n == 3 {
				pv := env.names[pn]
				for k := lo; k < hi; k++ {
					cases = append(cases, eq(pv.T, itoa(int64(k))))
					caseNames = append(caseNames, fmt.Sprintf("[%s=%d]", pn, k))
				}
				vc.oblige(key+"#split:range", "post", outReach, and(sx("<=", itoa(int64(lo)), pv.T), sx("<", pv.T, itoa(int64(hi)))), "")
			}
		}
		for k, en := range ct.Ensures {
			t := x.evalBool(env, en.Expr)
			if parts := x.cutParts[t]; len(parts) > 0 && len(cases) == 0 {
				for j, pt := range parts {
					vc.oblige(fmt.Sprintf("%s#post.%d/part%d", key, k+1, j+1), "post", outReach, pt, fmt.Sprintf("%s:%d", shortPath(ct.File), en.Line))
				}
				continue
			}
			if len(cases) == 0 {
				vc.oblige(fmt.Sprintf("%s#post.%d", key, k+1), "post", outReach, t, fmt.Sprintf("%s:%d", shortPath(ct.File), en.Line))
				continue
			}
			for ci, cs := range cases {
				vc.oblige(fmt.Sprintf("%s#post.%d%s", key, k+1, caseNames[ci]), "post", and(outReach, cs), t, fmt.Sprintf("%s:%d", shortPath(ct.File), en.Line))
			}
		}
		// frame: callers rely on the modifies clause (cells outside it keep their value, maps are
		// untouched unless modifies_maps is given), so it is an obligation of the function itself
		if len(ct.Modifies) > 0 {
			envOld := env.withState(&frm.entrySt)
			var mods []string
			pure := len(ct.Modifies) == 1 && ct.Modifies[0].Text == "nothing"
			if !pure {
				for _, m := range ct.Modifies {
					mods = append(mods, x.evalLoc(envOld, m.Expr))
				}
			}
			keepCond := and(sx("<=", "0", "r"), sx("<", "r", "A0"))
			if len(mods) > 0 {
				keepCond = and(keepCond, not(or(mods...)))
			}
			goal := fmt.Sprintf("(forall ((r Int) (o Int)) (=> %s (= (%s r o) (%s r o))))", keepCond, out.Mem, frm.entrySt.Mem)
			if out.Mem != frm.entrySt.Mem {
				vc.oblige(key+"#frame:memory", "post", outReach, goal, fmt.Sprintf("%s:%d", shortPath(ct.File), ct.Modifies[0].Line))
			}
			if _, ok := ct.Raw["modifies_maps"]; !ok {
				var fams []string
				for f := range out.Maps {
					fams = append(fams, f)
				}
				sort.Strings(fams)
				for _, fname := range fams {
					f := vc.mapFams[fname]
					in := frm.entrySt.Maps[fname]
					if f == nil || in == "" {
						in = ""
						if f != nil {
							in = f.init
						}
					}
					if f == nil || in == "" || out.Maps[fname] == in {
						continue
					}
					decl, names := f.params()
					args := strings.Join(names, " ")
					var eqs []string
					eqs = append(eqs, fmt.Sprintf("(= (%s %s) (%s %s))", f.hasFn(out.Maps[fname]), args, f.hasFn(in), args))
					for j := range f.vl.cells {
						eqs = append(eqs, fmt.Sprintf("(=> (%s %s) (= (%s %s) (%s %s)))", f.hasFn(in), args, f.valFn(out.Maps[fname], j), args, f.valFn(in, j), args))
					}
					vc.oblige(key+"#frame:map:"+fname, "post", outReach, fmt.Sprintf("(forall (%s) (=> (and (<= 0 m) (< m A0)) %s))", decl, and(eqs...)), fmt.Sprintf("%s:%d", shortPath(ct.File), ct.Modifies[0].Line))
				}
			}
		}
		// `cursor_flow f`: the read cursor f of a serialiser only positions the output -- it is compared
		// with the length of the image, used as the low bound of a slice of it, and advanced; the
		// image itself must not depend on it (every Read call has to see the same bytes)
		for _, cf := range ct.Raw["cursor_flow"] {
			for _, bad := range cursorFlowViolations(fn, strings.TrimSpace(cf)) {
				vc.oblige(fmt.Sprintf("%s#cursor-flow:%s.%s", key, strings.TrimSpace(cf), bad.what), "site", "true", "false", x.eng.pos(bad.pos))
			}
			vc.oblige(fmt.Sprintf("%s#cursor-flow:%s.checked", key, strings.TrimSpace(cf)), "site", "true", "true", fmt.Sprintf("%s:%d", shortPath(ct.File), ct.Line))
		}
		// `once call C#k`: that call site is executed at most once per invocation (it is not on a cycle
		// of the control flow graph)
		for _, oc := range ct.Raw["once"] {
			pat := strings.TrimSpace(strings.TrimPrefix(strings.TrimSpace(oc), "call"))
			want := 0
			if h := strings.LastIndex(pat, "#"); h >= 0 {
				if k, err := strconv.Atoi(pat[h+1:]); err == nil {
					want, pat = k, pat[:h]
				}
			}
			found := false
			if x.trace != nil {
				for _, c := range x.trace.calls {
					if c.Fn == fn && c.Depth == 0 && c.Instr != nil && calleeMatch(pat, c.Callee) && (want == 0 || c.Ord == want) {
						found = true
						g := "true"
						if onCycle(c.Instr.Block()) {
							g = "false"
						}
						vc.oblige(fmt.Sprintf("%s#once:%s#%d", key, pat, c.Ord), "site", "true", g, x.eng.pos(c.Pos))
					}
				}
			}
			if !found {
				vc.oblige(fmt.Sprintf("%s#once-unmatched:%s#%d", key, pat, want), "site", "true", "false", fmt.Sprintf("%s:%d", shortPath(ct.File), ct.Line))
			}
		}
		// a site assertion that matches no call site says nothing (renamed callee, wrong ordinal):
		// reported as a failed obligation rather than silently dropped
		for k, sa := range ct.Asserts {
			if sa.Cl.Text != "false" && !sa.Optional && x.assertHits[k] == 0 {
				vc.oblige(fmt.Sprintf("%s#site-unmatched:%s#%d.%d", key, sa.Callee, sa.Ord, k+1), "site", "true", "false", fmt.Sprintf("%s:%d", shortPath(ct.File), sa.Cl.Line))
			}
		}
		// `some call A | B`: the policy assertions on A and B are not all vacuous -- at least one
		// such call exists (the code may use either, e.g. os.OpenFile or FileStore.OpenFile)
		for k, alt := range ct.Raw["some"] {
			alt = strings.TrimSpace(strings.TrimPrefix(strings.TrimSpace(alt), "call"))
			found := false
			if x.trace != nil {
				for _, c := range x.trace.calls {
					for _, a := range strings.Split(alt, "|") {
						if c.Depth == 0 && calleeMatch(strings.TrimSpace(a), c.Callee) {
							found = true
						}
					}
				}
			}
			if !found {
				vc.oblige(fmt.Sprintf("%s#site-unmatched:some(%s).%d", key, alt, k+1), "site", "true", "false", shortPath(ct.File))
			}
		}
		// the exit must be reachable under the hypotheses (vacuity guard)
		vc.cover(key+"#cover:exit", outReach, "")
	}
	return
}

func shortPath(p string) string {
	if k := strings.LastIndex(p, "/"); k >= 0 {
		return p[k+1:]
	}
	return p
}

// validFacts states, on an uninterpreted (base) memory, that the object of type t at
// (ref, off) is well typed: integer cells are within the range of their type, slice
// headers are well formed, byte slices hold bytes.  Followed through pointers and
// slices to the given depth.  `guard` is the condition under which the object exists.
func (x *Exec) validFacts(mem string, t types.Type, ref, off string, guard string, depth int) {
	S := x.vc.S
	l := x.vc.ls.of(t)
	at := func(i int) string { return sel(mem, ref, add(off, itoa(int64(i)))) }
	for i, ci := range l.cells {
		switch ci.kind {
		case kInt:
			if ci.lo != "" {
				S.fact(guard, and(sx("<=", ci.lo, at(i)), sx("<=", at(i), ci.hi)))
			}
		case kOff:
			S.fact(guard, sx("<=", "0", at(i)))
		case kRef:
			bound := "A0"
			if x.refBound != "" {
				bound = x.refBound
			}
			S.fact(guard, and(sx("<=", "0", at(i)), sx("<", at(i), bound)))
		case kLen:
			S.fact(guard, and(sx("<=", "0", at(i)), sx("<=", at(i), at(i+1)), sx("<=", at(i+1), "1099511627776"),
				implies(eq(at(i-2), "0"), eq(at(i+1), "0"))))
		case kStr:
			S.fact(guard, sx("<=", "0", sx("strlen", at(i))))
		case kTypeID:
			S.fact(guard, sx("<=", "0", at(i)))
		}
	}
	if depth <= 0 {
		return
	}
	// follow slices and pointers inside t
	x.walkRefs(t, 0, func(cell int, ft types.Type) {
		switch u := ft.Underlying().(type) {
		case *types.Slice:
			x.sliceElemFacts(mem, u.Elem(), at(cell), at(cell+1), at(cell+2), and(guard, not(eq(at(cell), "0"))), depth-1)
		case *types.Pointer:
			if _, isStruct := u.Elem().Underlying().(*types.Struct); isStruct && depth > 1 {
				x.validFacts(mem, u.Elem(), at(cell), at(cell+1), and(guard, not(eq(at(cell), "0"))), depth-1)
			}
		}
	})
}

// walkRefs calls f for every slice- or pointer-typed component of t with its cell offset.
func (x *Exec) walkRefs(t types.Type, base int, f func(cell int, ft types.Type)) {
	switch u := t.Underlying().(type) {
	case *types.Slice, *types.Pointer:
		f(base, t)
	case *types.Struct:
		off := base
		for i := 0; i < u.NumFields(); i++ {
			x.walkRefs(u.Field(i).Type(), off, f)
			off += x.vc.ls.size(u.Field(i).Type())
		}
	case *types.Array:
		if u.Len() <= 16 {
			es := x.vc.ls.size(u.Elem())
			for i := 0; i < int(u.Len()); i++ {
				x.walkRefs(u.Elem(), base+i*es, f)
			}
		}
	}
}

func (x *Exec) sliceElemFacts(mem string, et types.Type, ref, off, ln string, guard string, depth int) {
	S := x.vc.S
	el := x.vc.ls.of(et)
	es := len(el.cells)
	if es == 1 {
		ci := el.cells[0]
		if ci.kind == kInt && ci.lo != "" {
			if mem == x.vc.baseMem || strings.HasPrefix(mem, "Mh") || strings.HasPrefix(mem, "M0") {
				S.fact(guard, fmt.Sprintf("(forall ((o Int)) (! (=> (and (<= %s o) (< o (+ %s %s))) (and (<= %s (%s %s o)) (<= (%s %s o) %s))) :pattern ((%s %s o))))",
					off, off, ln, ci.lo, mem, ref, mem, ref, ci.hi, mem, ref))
			} else {
				S.fact(guard, fmt.Sprintf("(forall ((o Int)) (=> (and (<= %s o) (< o (+ %s %s))) (and (<= %s (%s %s o)) (<= (%s %s o) %s))))",
					off, off, ln, ci.lo, mem, ref, mem, ref, ci.hi))
			}
		}
		return
	}
	// slices of structs: per scalar cell, quantified over the element index
	for c, ci := range el.cells {
		cell := fmt.Sprintf("(%s %s (+ %s (* k %d) %d))", mem, ref, off, es, c)
		var body string
		switch ci.kind {
		case kInt:
			if ci.lo == "" {
				continue
			}
			body = and(sx("<=", ci.lo, cell), sx("<=", cell, ci.hi))
		case kLen:
			next := fmt.Sprintf("(%s %s (+ %s (* k %d) %d))", mem, ref, off, es, c+1)
			body = and(sx("<=", "0", cell), sx("<=", cell, next))
		case kOff:
			body = sx("<=", "0", cell)
		case kRef:
			bound := "A0"
			if x.refBound != "" {
				bound = x.refBound
			}
			body = and(sx("<=", "0", cell), sx("<", cell, bound))
		default:
			continue
		}
		if mem == x.vc.baseMem || strings.HasPrefix(mem, "Mh") || strings.HasPrefix(mem, "M0") {
			S.fact(guard, fmt.Sprintf("(forall ((k Int)) (! (=> (and (<= 0 k) (< k %s)) %s) :pattern (%s)))", ln, body, cell))
			continue
		}
		// a derived memory is a macro (no usable trigger): the first elements are stated one by one
		for k := 0; k < 4; k++ {
			inst := strings.ReplaceAll(body, "(* k ", fmt.Sprintf("(* %d ", k))
			S.fact(and(guard, sx("<", itoa(int64(k)), ln)), inst)
		}
	}
}

// conjuncts splits a term of the form (and A B ...) into its top-level conjuncts.
func conjuncts(t string) []string {
	if !strings.HasPrefix(t, "(and ") {
		return []string{t}
	}
	body := t[5 : len(t)-1]
	var out []string
	depth, last := 0, 0
	for i := 0; i < len(body); i++ {
		switch body[i] {
		case '(':
			depth++
		case ')':
			depth--
		case ' ':
			if depth == 0 {
				out = append(out, body[last:i])
				last = i + 1
			}
		}
	}
	out = append(out, body[last:])
	var flat []string
	for _, o := range out {
		flat = append(flat, conjuncts(o)...)
	}
	return flat
}

type flowBad struct {
	what string
	pos  token.Pos
}

// cursorFlowViolations lists the uses of loads of recv.<field> that are not one of: comparison
// with a len(...) value, low bound of a slice expression, addend of the value stored back into
// the same field.
func cursorFlowViolations(fn *ssa.Function, field string) []flowBad {
	var out []flowBad
	if len(fn.Params) == 0 {
		return out
	}
	isField := func(v ssa.Value) bool {
		fa, ok := v.(*ssa.FieldAddr)
		if !ok {
			return false
		}
		st, ok := deref(fa.X.Type()).Underlying().(*types.Struct)
		return ok && st.Field(fa.Field).Name() == field
	}
	isLen := func(v ssa.Value) bool {
		c, ok := v.(*ssa.Call)
		if !ok {
			return false
		}
		b, ok := c.Call.Value.(*ssa.Builtin)
		return ok && b.Name() == "len"
	}
	n := 0
	for _, b := range fn.Blocks {
		for _, ins := range b.Instrs {
			ld, ok := ins.(*ssa.UnOp)
			if !ok || ld.Op != token.MUL || !isField(ld.X) {
				continue
			}
			for _, ref := range *ld.Referrers() {
				okUse := false
				switch u := ref.(type) {
				case *ssa.DebugRef:
					okUse = true
				case *ssa.Slice:
					okUse = u.Low == ssa.Value(ld) && u.X != ssa.Value(ld)
				case *ssa.BinOp:
					other := u.X
					if other == ssa.Value(ld) {
						other = u.Y
					}
					switch u.Op {
					case token.GEQ, token.LSS, token.GTR, token.LEQ:
						okUse = isLen(other)
					case token.ADD:
						// advanced: the sum is stored back into the same field and nowhere else
						okUse = true
						for _, r2 := range *u.Referrers() {
							if st, ok := r2.(*ssa.Store); ok && isField(st.Addr) && st.Val == ssa.Value(u) {
								continue
							}
							if _, ok := r2.(*ssa.DebugRef); ok {
								continue
							}
							okUse = false
						}
					}
				}
				if !okUse {
					n++
					out = append(out, flowBad{fmt.Sprintf("use%d", n), ref.Pos()})
				}
			}
		}
	}
	return out
}

// onCycle: the block can reach itself.
func onCycle(b *ssa.BasicBlock) bool {
	seen := map[*ssa.BasicBlock]bool{}
	var st []*ssa.BasicBlock
	st = append(st, b.Succs...)
	for len(st) > 0 {
		n := st[len(st)-1]
		st = st[:len(st)-1]
		if n == b {
			return true
		}
		if seen[n] {
			continue
		}
		seen[n] = true
		st = append(st, n.Succs...)
	}
	return false
}
