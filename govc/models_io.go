package main

// Models of bytes.Reader / bytes.Buffer / binary.Read / binary.Write / io.ReadAll.
//
// io.ReadAll, (*bytes.Buffer).ReadFrom and io.Copy drain an io.Reader.  When the
// reader's dynamic type has a proven cursor contract (directive `cursor` on its Read
// method), the drain lemma (checked separately from the contract alone, see lemmas.go)
// gives: the drained bytes are W[off:], and afterwards off' = max(off, len W).

import (
	"fmt"
	"go/types"

	"golang.org/x/tools/go/ssa"
)

func init() {
	stdModels["bytes.NewReader"] = bytesNewReader
	stdModels["bytes.NewBuffer"] = bytesNewBuffer
	stdModels["(*bytes.Buffer).Bytes"] = bufferBytes
	stdModels["(*bytes.Buffer).Write"] = bufferWrite
	stdModels["(*bytes.Buffer).ReadFrom"] = bufferReadFrom
	stdModels["(*bytes.Buffer).Len"] = bufferLen
	stdModels["encoding/binary.Read"] = binaryRead
	stdModels["encoding/binary.Write"] = binaryWrite
	stdModels["encoding/binary.Size"] = binarySize
	stdModels["io.ReadAll"] = ioReadAll
	stdModels["io.Copy"] = ioCopyRecord
	stdModels["crypto/rand.Read"] = cryptoRandRead
}

// crypto/rand.Read(b): fills b with arbitrary bytes and touches nothing else.
func cryptoRandRead(x *Exec, fr *frame, ins ssa.CallInstruction, c *ssa.CallCommon, args []Val, st *State, r string) (Val, string) {
	used("crypto/rand.Read(b): writes arbitrary bytes into b only; returns (len(b), nil) or an error")
	buf := args[0]
	mem := st.Mem
	h := x.vc.declMem("Mh")
	cond := and(eq("r", buf[0].T), sx("<=", buf[1].T, "o"), sx("<", "o", add(buf[1].T, buf[2].T)))
	st.Mem = x.vc.defMem(ite(cond, sel(h, "r", "o"), sel(mem, "r", "o")))
	x.vc.S.fact(r, fmt.Sprintf("(forall ((o Int)) (! (and (<= 0 (%s %s o)) (<= (%s %s o) 255)) :pattern ((%s %s o))))", h, buf[0].T, h, buf[0].T, h, buf[0].T))
	res := x.opaqueCall("crypto/rand.Read", c.Signature().Results(), st, r)
	return res, r
}

// io.Copy(dst, bytes.NewReader(b)) where dst is a *T whose Write method is under contract:
// (*bytes.Reader).WriteTo hands the unread part s[i:] to dst in ONE Write call; io.Copy
// returns (n, err) of that call (ErrShortWrite when n < len without error).
func ioCopyRecord(x *Exec, fr *frame, ins ssa.CallInstruction, c *ssa.CallCommon, args []Val, st *State, r string) (Val, string) {
	hv := func() (Val, string) {
		return x.havocCall("io.Copy", c.Signature().Results(), args, c.Args, st, r), r
	}
	dmi, ok := c.Args[0].(*ssa.MakeInterface)
	rp, rpt, kind := x.readerObj(fr, c.Args[1])
	if !ok || kind != "reader" {
		return hv()
	}
	pt, ok := dmi.X.Type().Underlying().(*types.Pointer)
	if !ok {
		return hv()
	}
	nt, ok := pt.Elem().(*types.Named)
	if !ok || nt.Obj().Pkg() == nil {
		return hv()
	}
	key := nt.Obj().Pkg().Name() + ".(*" + nt.Obj().Name() + ").Write"
	ct, fn := x.eng.contracts[key], x.eng.funcs[key]
	if ct == nil || fn == nil || len(ct.Ensures) == 0 || fn == x.top {
		return hv()
	}
	used("io.Copy(dst, bytes.NewReader(b)): one dst.Write call with the unread part of b; its (n, err) is returned (io.ErrShortWrite when n < len and err == nil)")
	so, stype := x.fieldAt(rpt, "s")
	po, _ := x.fieldAt(rpt, "i")
	src := x.vc.S.defVal("cs", x.vc.load(st, x.vc.ls.of(stype), rp[0].T, add(rp[1].T, itoa(int64(so)))))
	pos := x.vc.S.def("cpos", ic(x.vc.read(st.Mem, rp[0].T, add(rp[1].T, itoa(int64(po)))))).T
	x.vc.S.fact(r, and(sx("<=", "0", pos), sx("<=", pos, src[2].T)))
	p := Val{src[0], ic(add(src[1].T, pos)), ic(sub(src[2].T, pos)), ic(sub(src[3].T, pos))}
	x.vc.store(st, rp[0].T, add(rp[1].T, itoa(int64(po))), Val{src[2]})
	cs := &CallSite{Instr: ins, Fn: fr.fn, Depth: fr.depth, Callee: key, Reach: r, Args: []Val{x.val(fr, dmi.X), p}, Pos: ins.Pos(), StBefore: st.clone()}
	if x.lastSite != nil && x.lastSite.Instr == ins {
		cs.Ord = x.lastSite.Ord
	}
	wres, r2 := x.callContract(fr, cs, fn, ct, cs.Args, st, r)
	// (n int, err error) -> (written int64, err error)
	short := and(eq(wres[1].T, "0"), not(eq(wres[0].T, p[2].T)))
	ev := x.havocVal(types.NewTuple(c.Signature().Results().At(1)), st, r2, "copy_err")
	x.vc.S.fact(r2, implies(short, not(eq(ev[0].T, "0"))))
	x.vc.S.fact(r2, implies(not(short), and(eq(ev[0].T, wres[1].T), eq(ev[1].T, wres[2].T), eq(ev[2].T, wres[3].T))))
	return Val{wres[0], ev[0], ev[1], ev[2]}, r2
}

func structField(t types.Type, name string) (idx int, st *types.Struct) {
	st = deref(t).Underlying().(*types.Struct)
	for i := 0; i < st.NumFields(); i++ {
		if st.Field(i).Name() == name {
			return i, st
		}
	}
	panic(unsupported("no field " + name + " in " + typeStr(t)))
}

func (x *Exec) fieldAt(ptrT types.Type, name string) (off int, ft types.Type) {
	i, st := structField(ptrT, name)
	return x.vc.ls.fieldOff(st, i), st.Field(i).Type()
}

// bytes.NewReader(b): &Reader{s: b, i: 0, prevRune: -1}
func bytesNewReader(x *Exec, fr *frame, ins ssa.CallInstruction, c *ssa.CallCommon, args []Val, st *State, r string) (Val, string) {
	used("bytes.NewReader(b): a reader positioned at 0 over b (no copy)")
	rt := c.Signature().Results().At(0).Type()
	ref := x.vc.alloc(st, "bytesReader")
	so, _ := x.fieldAt(rt, "s")
	x.vc.store(st, ref, itoa(int64(so)), args[0])
	return Val{ic(ref), ic("0")}, r
}

// bytes.NewBuffer(b): &Buffer{buf: b}
func bytesNewBuffer(x *Exec, fr *frame, ins ssa.CallInstruction, c *ssa.CallCommon, args []Val, st *State, r string) (Val, string) {
	used("bytes.NewBuffer(b): a buffer whose unread content is b")
	rt := c.Signature().Results().At(0).Type()
	ref := x.vc.alloc(st, "bytesBuffer")
	bo, _ := x.fieldAt(rt, "buf")
	x.vc.store(st, ref, itoa(int64(bo)), args[0])
	return Val{ic(ref), ic("0")}, r
}

func (x *Exec) bufState(st *State, ptrT types.Type, p Val) (buf Val, off string, bo, oo int) {
	bo, bt := x.fieldAt(ptrT, "buf")
	oo, _ = x.fieldAt(ptrT, "off")
	buf = x.vc.S.defVal("bbuf", x.vc.load(st, x.vc.ls.of(bt), p[0].T, add(p[1].T, itoa(int64(bo)))))
	off = x.vc.S.def("boff", ic(x.vc.read(st.Mem, p[0].T, add(p[1].T, itoa(int64(oo)))))).T
	return
}

func bufferBytes(x *Exec, fr *frame, ins ssa.CallInstruction, c *ssa.CallCommon, args []Val, st *State, r string) (Val, string) {
	used("(*bytes.Buffer).Bytes: the unread portion buf[off:]")
	buf, off, _, _ := x.bufState(st, c.Args[0].Type(), args[0])
	return Val{buf[0], ic(add(buf[1].T, off)), ic(sub(buf[2].T, off)), ic(sub(buf[3].T, off))}, r
}

func bufferLen(x *Exec, fr *frame, ins ssa.CallInstruction, c *ssa.CallCommon, args []Val, st *State, r string) (Val, string) {
	used("(*bytes.Buffer).Len: len(buf)-off")
	buf, off, _, _ := x.bufState(st, c.Args[0].Type(), args[0])
	return Val{ic(sub(buf[2].T, off))}, r
}

// appendToBuffer: buf := fresh copy of buf ++ seq
func (x *Exec) appendToBuffer(st *State, ptrT types.Type, p Val, addLen string, at func(o string) string) {
	buf, _, bo, _ := x.bufState(st, ptrT, p)
	mem := st.Mem
	newLen := x.vc.S.def("buflen", ic(add(buf[2].T, addLen))).T
	ref := x.vc.allocWith(st, "bufgrow", newLen, func(o string) string {
		return ite(sx("<", o, buf[2].T), x.vc.read(mem, buf[0].T, add(buf[1].T, o)), at(sub(o, buf[2].T)))
	})
	x.vc.store(st, p[0].T, add(p[1].T, itoa(int64(bo))), Val{ic(ref), ic("0"), ic(newLen), ic(newLen)})
}

func bufferWrite(x *Exec, fr *frame, ins ssa.CallInstruction, c *ssa.CallCommon, args []Val, st *State, r string) (Val, string) {
	used("(*bytes.Buffer).Write(p): appends p, returns (len(p), nil)")
	p := args[1]
	mem := st.Mem
	x.appendToBuffer(st, c.Args[0].Type(), args[0], p[2].T, func(o string) string { return x.vc.read(mem, p[0].T, add(p[1].T, o)) })
	return Val{p[2], ic("0"), ic("0"), ic("0")}, r
}

// cursorType: static type *T of an interface operand built by MakeInterface, when
// T's Read method carries a cursor contract.
func (x *Exec) cursorSource(v ssa.Value) (*ssa.MakeInterface, *Contract, *ssa.Function) {
	mi, ok := v.(*ssa.MakeInterface)
	if !ok {
		return nil, nil, nil
	}
	pt, ok := mi.X.Type().Underlying().(*types.Pointer)
	if !ok {
		return mi, nil, nil
	}
	nt, ok := pt.Elem().(*types.Named)
	if !ok || nt.Obj().Pkg() == nil {
		return mi, nil, nil
	}
	key := nt.Obj().Pkg().Name() + ".(*" + nt.Obj().Name() + ").Read"
	ct := x.eng.contracts[key]
	fn := x.eng.funcs[key]
	if ct == nil || fn == nil || len(ct.Raw["cursor"]) == 0 {
		return mi, nil, nil
	}
	return mi, ct, fn
}

// drain applies the drain lemma to reader rv (*T): returns the sequence W[off:] (length
// and content in the pre-state) and advances the cursor.
func (x *Exec) drain(fr *frame, cs ssa.CallInstruction, rv Val, ct *Contract, fn *ssa.Function, st *State, r string, what string) (n string, at func(o string) string) {
	used("drain lemma: a reader whose Read satisfies the cursor contract w.r.t. W yields exactly W[off:] to io.ReadAll / Buffer.ReadFrom / io.Copy and ends with off = max(off, len W)  (lemma obligations are checked from the contract alone)")
	before := st.clone()
	env := x.calleeEnv(fn, ct, []Val{rv, {ic("0"), ic("0"), ic("0"), ic("0")}}, &before, &before)
	// precondition of Read at the first call
	for k, rq := range ct.Requires {
		t := x.evalBool(env, rq.Expr)
		if fr.top {
			x.vc.oblige(fmt.Sprintf("%s#pre-at-call:%s(%s).%d@%s", x.eng.fnKey(fr.fn), what, ct.Key, k+1, x.eng.pos(cs.Pos())), "pre-at-call", r, t, x.eng.pos(cs.Pos()))
		}
		x.vc.S.fact(r, t)
	}
	cur := ct.Raw["cursor"][0] // "<wire define> <offset field>"
	var wname, ofield string
	fmt.Sscanf(cur, "%s %s", &wname, &ofield)
	d := x.eng.defines[wname]
	if d == nil {
		panic(specErr("cursor: unknown wire definition " + wname))
	}
	ch := env.child()
	ch.names[d.params[0]] = env.names[ct.Params[0]]
	W := ch.toSeq(ch.eval(d.body))
	// name the sequence so the term stays small
	wn := x.vc.S.fresh("W")
	x.vc.S.raw(fmt.Sprintf("(define-fun %s ((i Int)) Int %s)", wn, W.At("i")))
	wl := x.vc.S.def("Wlen", ic(W.Len)).T
	recv := env.names[ct.Params[0]]
	oref, ooff, _ := env.fieldAddr(recv, ofield)
	off := x.vc.S.def("roff", ic(x.vc.read(st.Mem, oref, ooff))).T
	n = x.vc.S.def("drained", ic(ite(sx("<", off, wl), sub(wl, off), "0"))).T
	x.vc.store(st, oref, ooff, Val{ic(ite(sx("<", off, wl), wl, off))})
	return n, func(o string) string { return sx(wn, add(off, o)) }
}

func ioReadAll(x *Exec, fr *frame, ins ssa.CallInstruction, c *ssa.CallCommon, args []Val, st *State, r string) (Val, string) {
	mi, ct, fn := x.cursorSource(c.Args[0])
	if ct == nil {
		_ = mi
		return x.havocCall("io.ReadAll", c.Signature().Results(), args, c.Args, st, r), r
	}
	n, at := x.drain(fr, ins, x.val(fr, mi.X), ct, fn, st, r, "io.ReadAll")
	ref := x.vc.allocWith(st, "readall", n, at)
	// (b []byte, err error): err == nil (the cursor contract only fails with io.EOF)
	return Val{ic(ref), ic("0"), ic(n), ic(n), ic("0"), ic("0"), ic("0")}, r
}

func bufferReadFrom(x *Exec, fr *frame, ins ssa.CallInstruction, c *ssa.CallCommon, args []Val, st *State, r string) (Val, string) {
	mi, ct, fn := x.cursorSource(c.Args[1])
	if ct == nil {
		_ = mi
		return x.havocCall("(*bytes.Buffer).ReadFrom", c.Signature().Results(), args, c.Args, st, r), r
	}
	n, at := x.drain(fr, ins, x.val(fr, mi.X), ct, fn, st, r, "Buffer.ReadFrom")
	x.appendToBuffer(st, c.Args[0].Type(), args[0], n, at)
	return Val{ic(n), ic("0"), ic("0"), ic("0")}, r
}

// byteCells: number of cells of a fixed-size all-bytes type (arrays / structs of byte arrays)
func (x *Exec) byteCells(t types.Type) (int, bool) {
	l := x.vc.ls.of(t)
	for _, c := range l.cells {
		if c.kind != kInt || c.hi != "255" || c.lo != "0" {
			return 0, false
		}
	}
	return len(l.cells), len(l.cells) > 0
}

// readerSource: the reader operand is a fresh bytes.Reader / bytes.Buffer made in this function
func (x *Exec) readerObj(fr *frame, v ssa.Value) (ptr Val, ptrT types.Type, kind string) {
	mi, ok := v.(*ssa.MakeInterface)
	if !ok {
		return nil, nil, ""
	}
	switch typeStr(mi.X.Type()) {
	case "*bytes.Reader":
		return x.val(fr, mi.X), mi.X.Type(), "reader"
	case "*bytes.Buffer":
		return x.val(fr, mi.X), mi.X.Type(), "buffer"
	}
	return nil, nil, ""
}

// binary.Read(r, order, data) for data = pointer to a fixed-size all-bytes value and
// r = *bytes.Reader / *bytes.Buffer: reads exactly N bytes or fails leaving data untouched.
func binaryRead(x *Exec, fr *frame, ins ssa.CallInstruction, c *ssa.CallCommon, args []Val, st *State, r string) (Val, string) {
	dmi, ok := c.Args[2].(*ssa.MakeInterface)
	rp, rpt, kind := x.readerObj(fr, c.Args[0])
	if !ok || kind == "" {
		return x.havocCall("encoding/binary.Read", c.Signature().Results(), args, c.Args, st, r), r
	}
	pt, ok := dmi.X.Type().Underlying().(*types.Pointer)
	if !ok {
		return x.havocCall("encoding/binary.Read", c.Signature().Results(), args, c.Args, st, r), r
	}
	N, ok := x.byteCells(pt.Elem())
	if !ok {
		return x.havocCall("encoding/binary.Read", c.Signature().Results(), args, c.Args, st, r), r
	}
	used("binary.Read(r, order, &fixedBytes) on a bytes.Reader/bytes.Buffer: if at least N bytes are unread, copies the next N bytes into the value and returns nil; otherwise returns a non-nil error (io.EOF when nothing is unread) and leaves the value unchanged")
	dp := x.val(fr, dmi.X)
	var src Val
	var pos string
	var posOff int
	if kind == "reader" {
		so, stype := x.fieldAt(rpt, "s")
		posOff, _ = x.fieldAt(rpt, "i")
		src = x.vc.S.defVal("rs", x.vc.load(st, x.vc.ls.of(stype), rp[0].T, add(rp[1].T, itoa(int64(so)))))
		pos = x.vc.S.def("rpos", ic(x.vc.read(st.Mem, rp[0].T, add(rp[1].T, itoa(int64(posOff)))))).T
	} else {
		var bo int
		src, pos, bo, posOff = x.bufState(st, rpt, rp)
		_ = bo
	}
	n := itoa(int64(N))
	okc := x.vc.S.def("binread_ok", bc(sx(">=", sub(src[2].T, pos), n))).T
	// data := src[pos:pos+N] when ok
	mem := st.Mem
	cond := and(okc, eq("r", dp[0].T), sx("<=", dp[1].T, "o"), sx("<", "o", add(dp[1].T, n)))
	st.Mem = x.vc.defMem(ite(cond, x.vc.read(mem, src[0].T, add(src[1].T, add(pos, sub("o", dp[1].T)))), sel(mem, "r", "o")))
	x.vc.store(st, rp[0].T, add(rp[1].T, itoa(int64(posOff))), Val{ic(ite(okc, add(pos, n), src[2].T))})
	// error value
	ev := x.havocVal(c.Signature().Results(), st, r, "binread_err")
	eof := x.eofVal(st)
	x.vc.S.fact(r, eq(eq(ev[0].T, "0"), okc))
	x.vc.S.fact(r, implies(and(not(okc), eq(src[2].T, pos)), and(eq(ev[0].T, eof[0].T), eq(ev[1].T, eof[1].T), eq(ev[2].T, eof[2].T))))
	x.vc.S.fact(r, implies(and(not(okc), not(eq(src[2].T, pos))), not(and(eq(ev[0].T, eof[0].T), eq(ev[1].T, eof[1].T), eq(ev[2].T, eof[2].T)))))
	return ev, r
}

// binary.Write(&buf, order, fixedBytesValue): appends the N bytes.
func binaryWrite(x *Exec, fr *frame, ins ssa.CallInstruction, c *ssa.CallCommon, args []Val, st *State, r string) (Val, string) {
	dmi, ok := c.Args[2].(*ssa.MakeInterface)
	wp, wpt, kind := x.readerObj(fr, c.Args[0])
	if !ok || kind != "buffer" {
		return x.havocCall("encoding/binary.Write", c.Signature().Results(), args, c.Args, st, r), r
	}
	N, ok := x.byteCells(dmi.X.Type())
	if !ok {
		return x.havocCall("encoding/binary.Write", c.Signature().Results(), args, c.Args, st, r), r
	}
	used("binary.Write(&bytes.Buffer, order, fixedBytes): appends the N bytes of the value in order, returns nil")
	v := x.vc.S.defVal("bw", x.val(fr, dmi.X))
	x.appendToBuffer(st, wpt, wp, itoa(int64(N)), func(o string) string {
		t := "0"
		for k := N - 1; k >= 0; k-- {
			t = ite(eq(o, itoa(int64(k))), v[k].T, t)
		}
		return t
	})
	return Val{ic("0"), ic("0"), ic("0")}, r
}

func binarySize(x *Exec, fr *frame, ins ssa.CallInstruction, c *ssa.CallCommon, args []Val, st *State, r string) (Val, string) {
	if dmi, ok := c.Args[0].(*ssa.MakeInterface); ok {
		if N, ok := x.byteCells(dmi.X.Type()); ok {
			used("binary.Size(fixedBytes) = number of bytes")
			return Val{ic(itoa(int64(N)))}, r
		}
	}
	return x.havocCall("encoding/binary.Size", c.Signature().Results(), args, c.Args, st, r), r
}
