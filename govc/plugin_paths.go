package main

// Plug-in "paths" (C07): containment of every file-system effect in the client's file root (or the
// accounts directory), modulo an axiomatised path algebra.
//
// Paths are abstract strings.  ROOT is the root of the run (cc.FileRoot() in a handler, the
// fileRoot / accountDir argument elsewhere).  Uninterpreted: inroot(p) (p is ROOT or below it),
// rooted(q) (q is a cleaned absolute path: Join("/", ...)), seg(s) (s is one harmless path segment).
// The axioms (spec/paths.spec, repeated in the evidence) state facts about the real path and
// path/filepath packages; the thorough tier tests each of them exhaustively on short strings.

import (
	"fmt"
	"go/types"
	"os"
	"path/filepath"
	"strings"

	"golang.org/x/tools/go/ssa"
)

func init() { plugins["paths"] = pluginPaths }

func pathsSetup(specFile string) func(x *Exec) {
	return func(x *Exec) {
		S := x.vc.S
		S.declConst("ROOT", false)
		S.declFun("prel", []string{"Int"}, "Int")
		for _, f := range []string{"inroot", "rooted", "seg", "relsafe"} {
			S.declFun(f, []string{"Int"}, "Bool")
		}
		S.declFun("pjoin2", []string{"Int", "Int"}, "Int")
		S.declFun("pjoin3", []string{"Int", "Int", "Int"}, "Int")
		S.declFun("pdir", []string{"Int"}, "Int")
		S.declFun("pbase", []string{"Int"}, "Int")
		S.declFun("decode", []string{"Int"}, "Int")
		S.declFun("pfmt", []string{"Int", "Int"}, "Int")
		b, err := os.ReadFile(specFile)
		if err != nil {
			panic(specErr("paths.spec: " + err.Error()))
		}
		for _, ln := range strings.Split(string(b), "\n") {
			ln = strings.TrimSpace(ln)
			if ln == "" || strings.HasPrefix(ln, ";") || strings.HasPrefix(ln, "#") {
				continue
			}
			// string constants are written "..." and replaced by their ids
			for {
				i := strings.Index(ln, "\"")
				if i < 0 {
					break
				}
				j := strings.Index(ln[i+1:], "\"")
				lit := ln[i+1 : i+1+j]
				ln = ln[:i] + itoa(int64(x.strConst(lit))) + ln[i+j+2:]
			}
			S.raw("(assert " + ln + ")")
		}
		for _, f := range []string{"strlen"} {
			_ = f
		}
	}
}

func strArgs(x *Exec, fr *frame, v ssa.Value, st *State) ([]string, bool) {
	parts, ok := x.variadicParts(fr, v, st)
	if !ok {
		return nil, false
	}
	var out []string
	for _, p := range parts {
		if len(p) == 1 {
			out = append(out, p[0].T)
		} else if len(p) == 3 { // interface holding a string
			out = append(out, p[1].T)
		} else {
			return nil, false
		}
	}
	return out, true
}

func joinModel(x *Exec, fr *frame, ins ssa.CallInstruction, c *ssa.CallCommon, args []Val, st *State, r string) (Val, string) {
	ps, ok := strArgs(x, fr, c.Args[0], st)
	if ok {
		switch len(ps) {
		case 1:
			return Val{ic(ps[0])}, r // Join(p) = Clean(p): paths handed around are clean
		case 2:
			return Val{ic(x.vc.S.def("path", ic(sx("pjoin2", ps[0], ps[1]))).T)}, r
		case 3:
			return Val{ic(x.vc.S.def("path", ic(sx("pjoin3", ps[0], ps[1], ps[2]))).T)}, r
		}
	}
	return x.havocVal(c.Signature().Results(), st, r, "join"), r
}

func pathFn1(name string) stdModel {
	return func(x *Exec, fr *frame, ins ssa.CallInstruction, c *ssa.CallCommon, args []Val, st *State, r string) (Val, string) {
		return Val{ic(x.vc.S.def("path", ic(sx(name, args[0][0].T))).T)}, r
	}
}

func decodeModel(x *Exec, fr *frame, ins ssa.CallInstruction, c *ssa.CallCommon, args []Val, st *State, r string) (Val, string) {
	res := x.havocVal(c.Signature().Results(), st, r, "decode")
	res[0] = ic(x.vc.S.def("path", ic(sx("decode", args[1][0].T))).T)
	return res, r
}

func sprintfModel(x *Exec, fr *frame, ins ssa.CallInstruction, c *ssa.CallCommon, args []Val, st *State, r string) (Val, string) {
	if ps, ok := strArgs(x, fr, c.Args[1], st); ok && len(ps) == 1 {
		return Val{ic(x.vc.S.def("path", ic(sx("pfmt", args[0][0].T, ps[0]))).T)}, r
	}
	return x.havocVal(c.Signature().Results(), st, r, "sprintf"), r
}

func rootModel(x *Exec, fr *frame, ins ssa.CallInstruction, c *ssa.CallCommon, args []Val, st *State, r string) (Val, string) {
	return Val{ic("ROOT")}, r
}

func pathsOver() map[string]stdModel {
	m := handlerOver()
	m["path/filepath.Join"] = joinModel
	m["path.Join"] = joinModel
	m["path/filepath.Dir"] = pathFn1("pdir")
	m["path/filepath.Base"] = pathFn1("pbase")
	m["(*golang.org/x/text/encoding.Decoder).String"] = decodeModel
	m["fmt.Sprintf"] = sprintfModel
	m["strings.TrimPrefix"] = func(x *Exec, fr *frame, ins ssa.CallInstruction, c *ssa.CallCommon, args []Val, st *State, r string) (Val, string) {
		if s, ok := constStringArg(c.Args[1]); ok && s == "/" {
			return Val{ic(x.vc.S.def("path", ic(sx("prel", args[0][0].T))).T)}, r
		}
		return x.havocVal(c.Signature().Results(), st, r, "trim"), r
	}
	m["(*hotline.ClientConn).FileRoot"] = rootModel
	delete(m, "(*hotline.ClientConn).NewReply")
	delete(m, "(*hotline.ClientConn).NewErrReply")
	return m
}

func pluginPaths(r *Run, it Item) {
	key := it.Func
	if r.Eng.contracts[key] == nil {
		r.Errors = append(r.Errors, key+": no contract found for a function of the plan")
		return
	}
	opq := map[string]bool{}
	for k, v := range handlerOpaque {
		opq[k] = v
	}
	// these carry path contracts and are used modularly
	for _, k := range []string{"hotline.ReadPath", "hotline.NewFileWrapper", "(*hotline.ClientConn).FileRoot"} {
		delete(opq, k)
	}
	opq["(*hotline.ClientConn).NewReply"] = true
	opq["(*hotline.ClientConn).NewErrReply"] = true
	setup := pathsSetup(filepath.Join(r.Root, "spec", "paths.spec"))
	handler := strings.HasPrefix(key, "mobius.Handle")
	fr := r.Eng.verifyFuncOpts(key, RunOpts{Trace: true, Depth: 1, Over: pathsOver(), Opaque: opq, PreTaggedOnly: handler, Setup: func(x *Exec) {
		if handler {
			handlerSetup(x)
		}
		setup(x)
	}})
	r.results[key] = fr
	if fr.Err != "" {
		r.Errors = append(r.Errors, key+": "+fr.Err)
		return
	}
	// the path axioms are pattern-triggered: refutations need no model-based instantiation, and a
	// satisfiable query should come back quickly instead of timing out
	fr.VC.Options = "(set-option :smt.mbqi false)\n"
	r.Funcs = append(r.Funcs, key)
	var keep []*Obligation
	n := 0
	for _, o := range fr.VC.obls {
		kinds := []string{"site", "post", "pre-at-call", "inv-init", "inv-step"}
		if len(it.Kinds) > 0 {
			kinds = it.Kinds
		}
		if o.Cover || kindOK(kinds, o.Kind) {
			keep = append(keep, o)
			if !o.Cover {
				n++
			}
		}
	}
	if n == 0 {
		r.Errors = append(r.Errors, key+": the path contract generated no obligation")
	}
	fr.VC.obls = keep
	r.pending = append(r.pending, pendingVC{fr.VC, r.Prop + "_" + key})
	r.Notes = append(r.Notes, fr.VC.notes...)
	_ = types.Typ
	_ = fmt.Sprint
}
