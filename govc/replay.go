package main

// Replay of counterexamples against the real code (see DESIGN 3.6).

func replayObligation(r *Run, dir string, o *Obligation) (string, bool) {
	return writeReplay(dir, r.Prop, o, "solver model violates the obligation; no replay harness for this obligation class"), false
}
