package main

// Replay of counterexamples against the real code.
//
// For a failed obligation of a function verified on its own (mode F) the solver's model fixes the
// function's inputs: parameter values, the objects they point to, the bytes of their slices.  The
// replay asks the solver for exactly those values (and for the outputs the model predicts), builds
// a Go test that constructs the inputs, calls the REAL function in its own package (go test
// -overlay: nothing is written to the repository) and prints what it observed -- results, final
// contents of the objects and buffers passed in, or the panic.
//
//   nopanic obligation: confirmed when the real call panics.
//   post obligation:    confirmed when the real call returns exactly the outputs of the model;
//                       the clause is false on these values (that is what the model is), so the
//                       real code violates it on this input.
//
// Supported inputs: integers, booleans, byte arrays, []byte, structs and pointers to structs of
// these (unexported fields included), error results.  Anything else (maps, interfaces, strings,
// closures) is not replayed and the VIOLATION line keeps its no-failing-input-found suffix.

import (
	"math/big"
	"context"
	"encoding/json"
	"fmt"
	"go/types"
	"os"
	"os/exec"
	"path/filepath"
	"strconv"
	"strings"
	"time"

	"golang.org/x/tools/go/ssa"
)

const replayElems = 256

type rnode struct {
	kind  string // int | bool | array | struct | bytes | ptr | err
	typ   types.Type
	terms []string
	vals  []int64
	kids  []*rnode
	names []string
}

type replayBuilder struct {
	x   *Exec
	pkg *types.Package
	err string
	// byte slices seen while writing the observation code / the expected observation, in the same
	// order: used for the aliasing matrix (which outputs share memory with which)
	obsExprs []string
	expNodes []*rnode
}

func (b *replayBuilder) fail(f string, a ...any) *rnode {
	if b.err == "" {
		b.err = fmt.Sprintf(f, a...)
	}
	return &rnode{kind: "unsupported"}
}

func (b *replayBuilder) build(t types.Type, cells []string, mem string, depth int, isResult bool) *rnode {
	ls := b.x.vc.ls
	switch u := t.Underlying().(type) {
	case *types.Basic:
		switch {
		case u.Info()&types.IsBoolean != 0:
			return &rnode{kind: "bool", typ: t, terms: cells[:1]}
		case u.Info()&types.IsInteger != 0:
			return &rnode{kind: "int", typ: t, terms: cells[:1]}
		case u.Info()&types.IsString != 0:
			// a string is an abstract id with a length and characters
			n := &rnode{kind: "str", typ: t, terms: []string{sx("strlen", cells[0])}}
			for j := 0; j < replayElems; j++ {
				n.kids = append(n.kids, &rnode{kind: "int", typ: types.Typ[types.Uint8], terms: []string{sx("strat", cells[0], itoa(int64(j)))}})
			}
			return n
		}
		return b.fail("type %s", typeStr(t))
	case *types.Array:
		if u.Len() > 256 {
			return b.fail("array of %d", u.Len())
		}
		es := ls.size(u.Elem())
		n := &rnode{kind: "array", typ: t}
		for i := 0; i < int(u.Len()); i++ {
			n.kids = append(n.kids, b.build(u.Elem(), cells[i*es:(i+1)*es], mem, depth, isResult))
		}
		return n
	case *types.Struct:
		n := &rnode{kind: "struct", typ: t}
		off := 0
		for i := 0; i < u.NumFields(); i++ {
			sz := ls.size(u.Field(i).Type())
			n.kids = append(n.kids, b.build(u.Field(i).Type(), cells[off:off+sz], mem, depth, isResult))
			n.names = append(n.names, u.Field(i).Name())
			off += sz
		}
		return n
	case *types.Slice:
		eb, ok := u.Elem().Underlying().(*types.Basic)
		if !ok || eb.Kind() != types.Uint8 {
			return b.fail("slice of %s", typeStr(u.Elem()))
		}
		n := &rnode{kind: "bytes", typ: t, terms: cells[:4]}
		for j := 0; j < replayElems; j++ {
			n.kids = append(n.kids, &rnode{kind: "int", typ: u.Elem(), terms: []string{sel(mem, cells[0], add(cells[1], itoa(int64(j))))}})
		}
		return n
	case *types.Pointer:
		if depth >= 2 {
			return b.fail("pointer nesting")
		}
		if _, ok := u.Elem().Underlying().(*types.Struct); !ok {
			if _, ok := u.Elem().Underlying().(*types.Array); !ok {
				return b.fail("pointer to %s", typeStr(u.Elem()))
			}
		}
		sz := ls.size(u.Elem())
		var pc []string
		for i := 0; i < sz; i++ {
			pc = append(pc, sel(mem, cells[0], add(cells[1], itoa(int64(i)))))
		}
		n := &rnode{kind: "ptr", typ: t, terms: cells[:2]}
		n.kids = []*rnode{b.build(u.Elem(), pc, mem, depth+1, isResult)}
		return n
	case *types.Interface:
		if isResult && isErrType(t) {
			return &rnode{kind: "err", typ: t, terms: cells[:1]}
		}
		return b.fail("interface %s", typeStr(t))
	}
	return b.fail("type %s", typeStr(t))
}

func (n *rnode) collect(out *[]*rnode) {
	if len(n.terms) > 0 {
		*out = append(*out, n)
	}
	for _, k := range n.kids {
		k.collect(out)
	}
}

func (b *replayBuilder) tname(t types.Type) string {
	return types.TypeString(t, func(p *types.Package) string {
		if p == b.pkg {
			return ""
		}
		b.fail("type of package %s", p.Path())
		return p.Name()
	})
}

// lit: Go expression that constructs the value of the node
func (b *replayBuilder) lit(n *rnode) string {
	switch n.kind {
	case "int":
		return fmt.Sprintf("%s(%s)", b.tname(n.typ), intLit(n.typ, n.vals[0]))
	case "bool":
		if n.vals[0] != 0 {
			return b.tname(n.typ) + "(true)"
		}
		return b.tname(n.typ) + "(false)"
	case "array":
		var es []string
		for _, k := range n.kids {
			es = append(es, b.lit(k))
		}
		return b.tname(n.typ) + "{" + strings.Join(es, ", ") + "}"
	case "struct":
		var fs []string
		for i, k := range n.kids {
			if n.names[i] == "_" {
				continue
			}
			fs = append(fs, n.names[i]+": "+b.lit(k))
		}
		return b.tname(n.typ) + "{" + strings.Join(fs, ", ") + "}"
	case "bytes":
		if n.vals[0] == 0 {
			return b.tname(n.typ) + "(nil)"
		}
		ln, cp := n.vals[2], n.vals[3]
		if ln < 0 || cp < ln || cp > 1<<20 {
			b.fail("slice of %d/%d bytes", ln, cp)
			return "nil"
		}
		var es []string
		for j := 0; j < replayElems && int64(j) < ln; j++ {
			es = append(es, strconv.FormatInt(n.kids[j].vals[0]&255, 10))
		}
		return fmt.Sprintf("%s(verifBytes(%d, %d, []byte{%s}))", b.tname(n.typ), ln, cp, strings.Join(es, ", "))
	case "ptr":
		if n.vals[0] == 0 {
			return "(" + b.tname(n.typ) + ")(nil)"
		}
		return "&" + b.lit(n.kids[0])
	case "str":
		ln := n.vals[0]
		if ln < 0 || ln > replayElems {
			b.fail("string of %d bytes", ln)
			return `""`
		}
		var es []string
		for j := 0; int64(j) < ln; j++ {
			es = append(es, strconv.FormatInt(n.kids[j].vals[0]&255, 10))
		}
		return fmt.Sprintf("%s([]byte{%s})", b.tname(n.typ), strings.Join(es, ", "))
	}
	b.fail("literal of %s", n.kind)
	return "nil"
}

func intLit(t types.Type, v int64) string {
	if bt, ok := t.Underlying().(*types.Basic); ok && bt.Info()&types.IsUnsigned != 0 {
		return strconv.FormatUint(uint64(v), 10)
	}
	return strconv.FormatInt(v, 10)
}

// observe: Go statements appending the observable content of expr to out, mirroring expect
func (b *replayBuilder) observe(n *rnode, expr string, w *strings.Builder) {
	switch n.kind {
	case "int":
		fmt.Fprintf(w, "\tout = append(out, int64(%s))\n", expr)
	case "bool":
		fmt.Fprintf(w, "\tout = append(out, verifB(bool(%s)))\n", expr)
	case "err":
		fmt.Fprintf(w, "\tout = append(out, verifB(%s != nil))\n", expr)
	case "array":
		for i, k := range n.kids {
			b.observe(k, fmt.Sprintf("%s[%d]", expr, i), w)
		}
	case "struct":
		for i, k := range n.kids {
			if n.names[i] == "_" {
				continue
			}
			b.observe(k, expr+"."+n.names[i], w)
		}
	case "bytes":
		fmt.Fprintf(w, "\tout = append(out, int64(len(%s)))\n\tfor j := 0; j < %d; j++ {\n\t\tout = append(out, verifAt([]byte(%s), j))\n\t}\n", expr, replayElems, expr)
		fmt.Fprintf(w, "\tsl = append(sl, []byte(%s))\n", expr)
	case "str":
		fmt.Fprintf(w, "\tout = append(out, int64(len(%s)))\n\tfor j := 0; j < %d; j++ {\n\t\tout = append(out, verifAt([]byte(%s), j))\n\t}\n", expr, replayElems, expr)
	case "ptr":
		fmt.Fprintf(w, "\tif %s == nil {\n\tout = append(out, 0)\n\t} else {\n\tout = append(out, 1)\n", expr)
		b.observe(n.kids[0], "(*"+expr+")", w)
		fmt.Fprintf(w, "\t}\n")
	}
}

// expect: what observe would print for the values of the model
func (n *rnode) expect(out *[]int64, seen *[]*rnode) {
	switch n.kind {
	case "int":
		*out = append(*out, normInt(n.typ, n.vals[0]))
	case "bool", "err":
		if n.vals[0] != 0 {
			*out = append(*out, 1)
		} else {
			*out = append(*out, 0)
		}
	case "array", "struct":
		for i, k := range n.kids {
			if n.kind == "struct" && n.names[i] == "_" {
				continue
			}
			k.expect(out, seen)
		}
	case "bytes":
		*seen = append(*seen, n)
		ln := n.vals[2]
		if n.vals[0] == 0 {
			ln = 0
		}
		*out = append(*out, ln)
		for j := 0; j < replayElems; j++ {
			if int64(j) < ln {
				*out = append(*out, n.kids[j].vals[0]&255)
			} else {
				*out = append(*out, -1)
			}
		}
	case "str":
		ln := n.vals[0]
		*out = append(*out, ln)
		for j := 0; j < replayElems; j++ {
			if int64(j) < ln {
				*out = append(*out, n.kids[j].vals[0]&255)
			} else {
				*out = append(*out, -1)
			}
		}
	case "ptr":
		if n.vals[0] == 0 {
			*out = append(*out, 0)
			return
		}
		*out = append(*out, 1)
		n.kids[0].expect(out, seen)
	}
}

// aliasMatrix: for every pair of byte slices observed, whether their backing stores overlap in the model
func aliasMatrix(seen []*rnode, out *[]int64) {
	for i := 0; i < len(seen); i++ {
		for j := i + 1; j < len(seen); j++ {
			a, b := seen[i].vals, seen[j].vals
			ov := a[0] != 0 && a[0] == b[0] && a[3] > 0 && b[3] > 0 && a[1] < b[1]+b[3] && b[1] < a[1]+a[3]
			if ov {
				*out = append(*out, 1)
			} else {
				*out = append(*out, 0)
			}
		}
	}
}

func normInt(t types.Type, v int64) int64 { return v } // uint64 above 2^63 arrives wrapped already

// parseValues reads the answer of (get-value (...)): the second component of every pair, in order.
func parseValues(out string, n int) ([]int64, bool) {
	i := strings.Index(out, "((")
	if i < 0 {
		return nil, false
	}
	s := out[i+1:]
	var vals []int64
	pos := 0
	for len(vals) < n {
		// next pair "(" term value ")"
		for pos < len(s) && s[pos] != '(' {
			pos++
		}
		if pos >= len(s) {
			return nil, false
		}
		// find the matching close
		depth, j := 0, pos
		for ; j < len(s); j++ {
			if s[j] == '(' {
				depth++
			} else if s[j] == ')' {
				depth--
				if depth == 0 {
					break
				}
			}
		}
		pair := strings.TrimSpace(s[pos+1 : j])
		pos = j + 1
		// the value is the last s-expression of the pair
		var v string
		if strings.HasSuffix(pair, ")") {
			d, k := 0, len(pair)-1
			for ; k >= 0; k-- {
				if pair[k] == ')' {
					d++
				} else if pair[k] == '(' {
					d--
					if d == 0 {
						break
					}
				}
			}
			v = pair[k:]
		} else {
			k := strings.LastIndexAny(pair, " \n\t")
			v = pair[k+1:]
		}
		v = strings.TrimSpace(v)
		switch {
		case v == "true":
			vals = append(vals, 1)
		case v == "false":
			vals = append(vals, 0)
		case strings.HasPrefix(v, "(-"):
			x, err := strconv.ParseInt(strings.TrimSpace(strings.TrimSuffix(strings.TrimPrefix(v, "(-"), ")")), 10, 64)
			if err != nil {
				return nil, false
			}
			vals = append(vals, -x)
		default:
			x, err := strconv.ParseInt(v, 10, 64)
			if err != nil {
				u, err2 := strconv.ParseUint(v, 10, 64)
				if err2 != nil {
					// an unconstrained integer may get an arbitrarily large value in the model; what
					// matters for building inputs is only that the value is reproducible
					b, ok := new(big.Int).SetString(v, 10)
					if !ok {
						if os.Getenv("GOVC_DEBUG") != "" {
							fmt.Fprintf(os.Stderr, "replay: unreadable model value %q\n", v)
						}
						return nil, false
					}
					u = new(big.Int).Mod(b, new(big.Int).Lsh(big.NewInt(1), 62)).Uint64()
				}
				x = int64(u)
			}
			vals = append(vals, x)
		}
	}
	return vals, true
}

func replayObligation(r *Run, dir string, o *Obligation) (string, bool) {
	note := func(why string) (string, bool) {
		return writeReplay(dir, r.Prop, o, "solver model violates the obligation; "+why), false
	}
	if o.Kind != "post" && o.Kind != "nopanic" {
		return note("no replay harness for this obligation class (" + o.Kind + ")")
	}
	key := strings.SplitN(o.Name, "#", 2)[0]
	fr := r.results[key]
	if fr == nil || fr.Frame == nil || fr.Exec == nil || o.File == "" {
		return note("no replay: the obligation does not belong to a function verified on its own")
	}
	fn := fr.Exec.top
	if fn == nil || fn.Parent() != nil || len(fn.FreeVars) > 0 || fn.Pkg == nil || fn.TypeParams().Len() > 0 {
		return note("no replay: closure or generic function")
	}
	x := fr.Exec
	b := &replayBuilder{x: x, pkg: fn.Pkg.Pkg}
	memIn, memOut := fr.Frame.entrySt.Mem, fr.Out.Mem
	var ins, finals, results []*rnode
	for i, p := range fn.Params {
		var cells []string
		for _, c := range fr.Frame.entryVals[i] {
			cells = append(cells, b2i(c))
		}
		ins = append(ins, b.build(p.Type(), cells, memIn, 0, false))
		switch p.Type().Underlying().(type) {
		case *types.Pointer, *types.Slice, *types.Struct:
			finals = append(finals, b.build(p.Type(), cells, memOut, 0, false))
		default:
			finals = append(finals, nil)
		}
	}
	rt := fn.Signature.Results()
	for i := 0; i < rt.Len() && i < len(fr.Res); i++ {
		var cells []string
		for _, c := range fr.Res[i] {
			cells = append(cells, b2i(c))
		}
		results = append(results, b.build(rt.At(i).Type(), cells, memOut, 0, true))
	}
	if o.Kind == "nopanic" {
		// the panic obligation sits in the middle of the function: only the inputs are defined in its
		// query (the final memory is not), and only the inputs are needed -- the replay is confirmed
		// when the real call panics
		finals, results = nil, nil
	}
	if b.err != "" {
		return note("no replay: " + b.err + " is outside the supported input shapes")
	}
	// ask the solver for the values
	var nodes []*rnode
	for _, n := range ins {
		n.collect(&nodes)
	}
	for _, n := range finals {
		if n != nil {
			n.collect(&nodes)
		}
	}
	for _, n := range results {
		n.collect(&nodes)
	}
	var terms []string
	for _, n := range nodes {
		terms = append(terms, n.terms...)
	}
	q, err := os.ReadFile(o.File)
	if err != nil {
		return note("no replay: query file missing")
	}
	qs := strings.Replace(string(q), "(get-model)", "(get-value ("+strings.Join(terms, " ")+"))", 1)
	qf := o.File + ".values.smt2"
	os.WriteFile(qf, []byte(qs), 0o644)
	defer os.Remove(qf)
	ctx, cancel := context.WithTimeout(context.Background(), 60*time.Second)
	outb, _ := exec.CommandContext(ctx, "z3-new", "-T:50", qf).CombinedOutput()
	cancel()
	if !strings.HasPrefix(strings.TrimSpace(string(outb)), "sat") {
		return note("no replay: the solver did not reproduce its model")
	}
	vals, ok := parseValues(string(outb), len(terms))
	if !ok && os.Getenv("GOVC_DEBUG") != "" {
		os.WriteFile(filepath.Join(os.TempDir(), "govc_replay_values.txt"), outb, 0o644)
		fmt.Fprintf(os.Stderr, "replay: %d terms requested, output kept in govc_replay_values.txt\n", len(terms))
	}
	if !ok {
		return note("no replay: could not read the model values")
	}
	k := 0
	for _, n := range nodes {
		n.vals = vals[k : k+len(n.terms)]
		k += len(n.terms)
	}
	// the test
	var w strings.Builder
	fmt.Fprintf(&w, "package %s\n\n// generated by govc: replay of the counterexample for obligation %s\n\nimport (\n\t\"fmt\"\n\t\"testing\"\n\t\"unsafe\"\n)\n\n", fn.Pkg.Pkg.Name(), o.Name)
	w.WriteString("func verifBytes(n, c int, first []byte) []byte { b := make([]byte, n, c); copy(b, first); return b }\n")
	w.WriteString("func verifB(b bool) int64 { if b { return 1 }; return 0 }\n")
	w.WriteString("func verifAt(b []byte, j int) int64 { if j < len(b) { return int64(b[j]) }; return -1 }\n")
	w.WriteString("func verifOverlap(a, b []byte) int64 {\n\tif cap(a) == 0 || cap(b) == 0 { return 0 }\n\tpa, pb := uintptr(unsafe.Pointer(unsafe.SliceData(a))), uintptr(unsafe.Pointer(unsafe.SliceData(b)))\n\tif pa < pb+uintptr(cap(b)) && pb < pa+uintptr(cap(a)) { return 1 }\n\treturn 0\n}\n\n")
	w.WriteString("func TestVerifReplay(t *testing.T) {\n")
	var argNames []string
	for i, n := range ins {
		fmt.Fprintf(&w, "\ta%d := %s\n", i, b.lit(n))
		argNames = append(argNames, fmt.Sprintf("a%d", i))
	}
	var resNames []string
	for i := range results {
		fmt.Fprintf(&w, "\tvar r%d %s\n", i, b.tname(rt.At(i).Type()))
		resNames = append(resNames, fmt.Sprintf("r%d", i))
	}
	call := fn.Name() + "(" + strings.Join(argNames, ", ") + ")"
	if fn.Signature.Recv() != nil {
		call = "a0." + fn.Name() + "(" + strings.Join(argNames[1:], ", ") + ")"
	}
	if len(resNames) > 0 {
		call = strings.Join(resNames, ", ") + " = " + call
	}
	fmt.Fprintf(&w, "\tvar panicked any\n\tfunc() {\n\t\tdefer func() { panicked = recover() }()\n\t\t%s\n\t}()\n", call)
	w.WriteString("\tif panicked != nil {\n\t\tfmt.Printf(\"VERIF-REPLAY-PANIC %v\\n\", panicked)\n\t\treturn\n\t}\n\tvar out []int64\n\tvar sl [][]byte\n")
	for i, n := range results {
		b.observe(n, fmt.Sprintf("r%d", i), &w)
	}
	for i, n := range finals {
		if n != nil {
			b.observe(n, fmt.Sprintf("a%d", i), &w)
		}
	}
	w.WriteString("\tfor i := 0; i < len(sl); i++ {\n\t\tfor j := i + 1; j < len(sl); j++ {\n\t\t\tout = append(out, verifOverlap(sl[i], sl[j]))\n\t\t}\n\t}\n")
	w.WriteString("\tfmt.Printf(\"VERIF-REPLAY-OUT %v\\n\", out)\n}\n")
	if b.err != "" {
		return note("no replay: " + b.err)
	}
	var want []int64
	var seen []*rnode
	for _, n := range results {
		n.expect(&want, &seen)
	}
	for _, n := range finals {
		if n != nil {
			n.expect(&want, &seen)
		}
	}
	aliasMatrix(seen, &want)
	// run it on the tree under check
	repo := envOr("VERIF_REPO", "/repo")
	rel := strings.TrimPrefix(fn.Pkg.Pkg.Path(), modPath)
	rel = strings.TrimPrefix(rel, "/")
	tmp, err := os.MkdirTemp("", "govc_replay")
	if err != nil {
		return note("no replay: " + err.Error())
	}
	defer os.RemoveAll(tmp)
	src := filepath.Join(tmp, "replay_test.go")
	os.WriteFile(src, []byte(w.String()), 0o644)
	ov := filepath.Join(tmp, "ov.json")
	os.WriteFile(ov, []byte(fmt.Sprintf(`{"Replace": {%q: %q}}`, filepath.Join(repo, rel, "zz_verif_replay_test.go"), src)), 0o644)
	ctx2, cancel2 := context.WithTimeout(context.Background(), 3*time.Minute)
	defer cancel2()
	cmd := exec.CommandContext(ctx2, "go", "test", "-overlay", ov, "-vet=off", "-count=1", "-timeout", "60s", "-run", "^TestVerifReplay$", "-v", "./"+rel+"/")
	cmd.Dir = repo
	cmd.Env = append(os.Environ(), "GOFLAGS=-mod=mod", "GOPROXY=off", "GOSUMDB=off", "GOTOOLCHAIN=local")
	gout, _ := cmd.CombinedOutput()
	got := string(gout)
	confirmed, verdict := false, ""
	switch {
	case strings.Contains(got, "VERIF-REPLAY-PANIC"):
		if o.Kind == "nopanic" {
			confirmed, verdict = true, "the real function panics on the input of the model"
		} else {
			verdict = "the real function panics on this input (the model predicted a return): not counted as a reproduction of this obligation"
		}
	case strings.Contains(got, "VERIF-REPLAY-OUT"):
		line := got[strings.Index(got, "VERIF-REPLAY-OUT")+len("VERIF-REPLAY-OUT"):]
		line = strings.TrimSpace(strings.SplitN(line, "\n", 2)[0])
		wantS := strings.ReplaceAll(fmt.Sprint(want), ",", "")
		if o.Kind == "post" && line == wantS {
			confirmed, verdict = true, "the real function returns exactly the outputs of the model on the input of the model; the clause is false on them"
		} else if o.Kind == "post" {
			verdict = "the real function's outputs differ from the model's on this input (the model relies on an abstraction): not a confirmed input"
		} else {
			verdict = "the real function does not panic on this input"
		}
	default:
		verdict = "the replay test did not run: " + tailStr(got, 600)
	}
	p := filepath.Join(dir, sanitize(o.Name)+".json")
	rp := map[string]any{
		"property": r.Prop, "obligation": o.Name, "kind": o.Kind, "at": o.Pos, "status": o.Status, "solver": o.Solver,
		"why":           "solver model violates the obligation; " + verdict,
		"replay_test":   w.String(),
		"replay_cmd":    fmt.Sprintf("save replay_test as a _test.go file of package %s (or inject it with go test -overlay) and run: go test -vet=off -run '^TestVerifReplay$' ./%s/", fn.Pkg.Pkg.Name(), rel),
		"replay_output": tailStr(got, 3000),
		"model_outputs": want,
		"confirmed":     confirmed,
		"model":         o.Model,
	}
	bs, _ := json.MarshalIndent(rp, "", " ")
	os.WriteFile(p, bs, 0o644)
	return p, confirmed
}

var _ = ssa.BuilderMode(0)
