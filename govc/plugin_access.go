package main

// Plug-in "accesstables" (C16): the two 40-row tables that map privilege numbers to the
// names used in account files.
//
//	MarshalYAML   for every row (k, name) of spec/access_names.spec the struct field whose yaml
//	              tag is `name` equals bit k of the bitmap; there is no field without a row and
//	              no row without a field.
//	UnmarshalYAML (named form) for every j < 64: Set(j) has been executed at exit  <=>
//	              j is a defined privilege and the map holds `true` under its name.
//	              (legacy array form) every store into the bitmap writes byte(v_i) at index i
//	              of the ranged array.
//
// IsSet / Set themselves are proved in mode F (bit k counted from the most significant bit
// of byte 0; Set changes exactly that bit), so they are abstracted here: IsSet(k) = accbit(k),
// Set(k) raises the ghost flag acc_k.

import (
	"fmt"
	"go/types"
	"os"
	"path/filepath"
	"reflect"
	"strconv"
	"strings"

	"golang.org/x/tools/go/ssa"
)

type accName struct {
	idx  int
	name string
}

func loadAccessNames(path string) ([]accName, error) {
	b, err := os.ReadFile(path)
	if err != nil {
		return nil, err
	}
	var out []accName
	for i, ln := range strings.Split(string(b), "\n") {
		if k := strings.Index(ln, "#"); k >= 0 {
			ln = ln[:k]
		}
		f := strings.Fields(ln)
		if len(f) == 0 {
			continue
		}
		if len(f) != 2 {
			return nil, fmt.Errorf("%s:%d: <number> <name>", path, i+1)
		}
		n, err := strconv.Atoi(f[0])
		if err != nil {
			return nil, fmt.Errorf("%s:%d: %v", path, i+1, err)
		}
		out = append(out, accName{n, f[1]})
	}
	return out, nil
}

func init() { plugins["accesstables"] = pluginAccessTables }

func constIntArg(v ssa.Value) (int64, bool) { return constIntOf(v) }

func pluginAccessTables(r *Run, it Item) {
	names, err := loadAccessNames(filepath.Join(r.Root, "spec", "access_names.spec"))
	if err != nil {
		r.Errors = append(r.Errors, "access_names.spec: "+err.Error())
		return
	}
	byName := map[string]int{}
	byIdx := map[int]string{}
	for _, n := range names {
		byName[n.name] = n.idx
		byIdx[n.idx] = n.name
	}
	r.assume("legacy form: the []interface{} decoded by the YAML library does not share its backing object with the bitmap being filled")
	r.assume("yaml.v3 stores a struct field under its yaml tag and offers a mapping as map[string]interface{} with bool values / a sequence as []interface{} with int values (library semantics, not verified)")

	// ---- MarshalYAML ---------------------------------------------------------------
	{
		key := "hotline.(AccessBitmap).MarshalYAML"
		over := map[string]stdModel{
			"(*hotline.AccessBitmap).IsSet": func(x *Exec, fr *frame, ins ssa.CallInstruction, c *ssa.CallCommon, args []Val, st *State, rr string) (Val, string) {
				x.vc.S.declFun("accbit", []string{"Int"}, "Bool")
				return Val{bc(sx("accbit", args[1][0].T))}, rr
			},
		}
		fr := r.Eng.verifyFuncOpts(key, RunOpts{Trace: true, Depth: 2, Over: over})
		r.results[key] = fr
		if fr.Err != "" {
			r.Errors = append(r.Errors, key+": "+fr.Err)
		} else {
			r.Funcs = append(r.Funcs, key)
			vc := fr.VC
			vc.obls = nil
			// the returned interface value boxes the struct
			var st *types.Struct
			for _, b := range fr.Frame.fn.Blocks {
				for _, ins := range b.Instrs {
					if mi, ok := ins.(*ssa.MakeInterface); ok {
						if s, ok := mi.X.Type().Underlying().(*types.Struct); ok {
							st = s
						}
					}
				}
			}
			if st == nil || len(fr.Res) == 0 {
				r.Errors = append(r.Errors, key+": returned struct not found")
			} else {
				box := fr.Res[0][1].T
				seen := map[string]bool{}
				for q := 0; q < st.NumFields(); q++ {
					tag := reflect.StructTag(st.Tag(q)).Get("yaml")
					if k := strings.Index(tag, ","); k >= 0 {
						tag = tag[:k]
					}
					if tag == "" {
						tag = strings.ToLower(st.Field(q).Name())
					}
					seen[tag] = true
					idx, ok := byName[tag]
					off := itoa(int64(vc.ls.fieldOff(st, q)))
					cell := eq(vc.read(fr.Out.Mem, box, off), "1")
					if !ok {
						vc.oblige(fmt.Sprintf("%s#table:field-without-privilege:%s", key, tag), "table", fr.OutReach, "false", "")
						continue
					}
					vc.oblige(fmt.Sprintf("%s#table:%s=bit%d", key, tag, idx), "table", fr.OutReach, eq(cell, sx("accbit", itoa(int64(idx)))), "")
				}
				for _, n := range names {
					if !seen[n.name] {
						vc.oblige(fmt.Sprintf("%s#table:privilege-without-field:%s", key, n.name), "table", fr.OutReach, "false", "")
					}
				}
				vc.cover(key+"#cover:exit", fr.OutReach, "")
				r.pending = append(r.pending, pendingVC{vc, r.Prop + "_" + key})
			}
		}
	}

	// ---- UnmarshalYAML -------------------------------------------------------------
	{
		key := "hotline.(*AccessBitmap).UnmarshalYAML"
		bad := ""
		over := map[string]stdModel{
			"(*hotline.AccessBitmap).Set": func(x *Exec, fr *frame, ins ssa.CallInstruction, c *ssa.CallCommon, args []Val, st *State, rr string) (Val, string) {
				k, ok := constIntArg(c.Args[1])
				if !ok || c.Args[0] != fr.fn.Params[0] {
					bad = "Set called with a non-constant index or on another bitmap"
					return Val{}, rr
				}
				g := fmt.Sprintf("acc_%d", k)
				st.Ghost[g] = "1"
				return Val{}, rr
			},
		}
		// loop of the legacy form: invariant  -1 <= k < len  /\  forall j <= k: bits[j] == elem_j mod 256
		legacyInv := func(env *Env, phis []*ssa.Phi) string {
			x := env.x
			fn := env.fr.fn
			var ta *ssa.TypeAssert
			for _, b := range fn.Blocks {
				for _, ins := range b.Instrs {
					if t, ok := ins.(*ssa.TypeAssert); ok && t.CommaOk {
						if _, ok := t.AssertedType.Underlying().(*types.Slice); ok {
							ta = t
						}
					}
				}
			}
			if ta == nil || len(phis) != 1 {
				sfail("legacy-form loop: expected one range index and a []interface{} assertion")
			}
			arr := env.fr.vals[ta]
			k := env.fr.vals[phis[0]][0].T
			bits := env.fr.entryVals[0]
			mem := env.st.Mem
			intID := itoa(int64(x.eng.typeID(types.Typ[types.Int])))
			body := implies(eq(x.vc.read(mem, arr[0].T, add(arr[1].T, sx("*", "j", "3"))), intID),
				eq(x.vc.read(mem, bits[0].T, add(bits[1].T, "j")), sx("mod", x.vc.read(mem, arr[0].T, add(arr[1].T, add(sx("*", "j", "3"), "1"))), "256")))
			// the decoded array is an object of its own (assumption, also a hypothesis of the exit obligations)
			noAlias := not(eq(arr[0].T, bits[0].T))
			return and(sx("<=", "(- 1)", k), sx("<", k, ite(sx(">", arr[2].T, "0"), arr[2].T, "0")),
				implies(noAlias, fmt.Sprintf("(forall ((j Int)) (=> (and (<= 0 j) (<= j %s)) %s))", k, body)))
		}
		legacyMod := func(env *Env) string {
			bits := env.fr.entryVals[0]
			return and(eq("r", bits[0].T), sx("<=", bits[1].T, "o"), sx("<", "o", add(bits[1].T, "8")))
		}
		loops := map[int]*LoopSpec{1: {InvFns: []func(*Env, []*ssa.Phi) string{legacyInv}, ModFns: []func(*Env) string{legacyMod}}}
		fr := r.Eng.verifyFuncOpts(key, RunOpts{Trace: true, Depth: 2, Over: over, Loops: loops})
		r.results[key] = fr
		if fr.Err != "" || bad != "" {
			r.Errors = append(r.Errors, key+": "+fr.Err+bad)
			return
		}
		r.Funcs = append(r.Funcs, key)
		vc := fr.VC
		var invObls []*Obligation
		for _, o := range vc.obls {
			if o.Kind == "inv-init" || o.Kind == "inv-step" {
				invObls = append(invObls, o)
			}
		}
		if len(invObls) < 2 {
			r.Errors = append(r.Errors, key+": legacy-form loop not found")
			return
		}
		vc.obls = invObls
		fn := fr.Frame.fn
		var mapTA, arrTA *ssa.TypeAssert
		for _, b := range fn.Blocks {
			for _, ins := range b.Instrs {
				ta, ok := ins.(*ssa.TypeAssert)
				if !ok {
					continue
				}
				switch ta.AssertedType.Underlying().(type) {
				case *types.Map:
					if ta.CommaOk {
						mapTA = ta
					}
				case *types.Slice:
					if ta.CommaOk {
						arrTA = ta
					}
				}
			}
		}
		if mapTA == nil {
			r.Errors = append(r.Errors, key+": named-form branch (type assertion to map[string]interface{}) not found")
			return
		}
		mv := fr.Frame.vals[mapTA]
		m, isMap := mv[0].T, mv[1].T
		fam := vc.mapFamily(mapTA.AssertedType.Underlying().(*types.Map))
		outSt := fr.Out
		ver := fam.cur(vc, &outSt)
		boolID := itoa(int64(r.Eng.typeID(types.Typ[types.Bool])))
		flag := func(name string) string {
			k := Val{ic(itoa(int64(fr.Exec.strConst(name))))}
			v := fam.get(ver, m, k)
			return and(not(eq(m, "0")), fam.has(ver, m, k), eq(v[0].T, boolID), eq(v[1].T, "1"))
		}
		for j := 0; j < 64; j++ {
			want := "false"
			if n, ok := byIdx[j]; ok {
				want = flag(n)
			}
			got := eq(ghost(&fr.Out, fmt.Sprintf("acc_%d", j)), "1")
			vc.oblige(fmt.Sprintf("%s#table:named-form:bit%d", key, j), "table", and(fr.OutReach, isMap, eq(fr.Res[0][0].T, "0")), eq(got, want), "")
		}
		// legacy array form: after the loop byte j of the bitmap is element j of the array
		if arrTA == nil {
			r.Errors = append(r.Errors, key+": legacy-form branch (type assertion to []interface{}) not found")
			return
		}
		arr := fr.Frame.vals[arrTA]
		isArr := arr[len(arr)-1].T
		bits := fr.Frame.entryVals[0]
		intID := itoa(int64(r.Eng.typeID(types.Typ[types.Int])))
		for j := 0; j < 8; j++ {
			js := itoa(int64(j))
			elemT := vc.read(fr.Out.Mem, arr[0].T, add(arr[1].T, itoa(int64(3*j))))
			elemA := vc.read(fr.Out.Mem, arr[0].T, add(arr[1].T, itoa(int64(3*j+1))))
			got := vc.read(fr.Out.Mem, bits[0].T, add(bits[1].T, js))
			vc.oblige(fmt.Sprintf("%s#table:legacy-form:byte%d", key, j), "table",
				and(fr.OutReach, isArr, not(eq(arr[0].T, bits[0].T)), eq(fr.Res[0][0].T, "0"), sx("<", js, arr[2].T), eq(elemT, intID)), eq(got, sx("mod", elemA, "256")), "")
		}
		vc.cover(key+"#cover:exit", and(fr.OutReach, isMap), "")
		r.pending = append(r.pending, pendingVC{vc, r.Prop + "_" + key})
	}
}
