package main

// Evaluation of contract expressions (Go expression syntax + pseudo-functions)
// into SMT terms over a program state.

import (
	"fmt"
	"go/ast"
	"go/token"
	"go/types"
	"strconv"
	"strings"

	"golang.org/x/tools/go/ssa"
)

type SKind int

const (
	SInt SKind = iota
	SBool
	SGo  // Go-typed value (cells + type)
	SSeq // mathematical sequence of Ints
)

type Seq struct {
	Len string
	At  func(i string) string
	// Cuts: absolute end offsets of the (flattened) parts of a concatenation, used to split a
	// quantified goal over the sequence into one obligation per part.
	Cuts []string
}

type SV struct {
	K   SKind
	T   string
	V   Val
	Ty  types.Type
	Seq *Seq
}

type Env struct {
	site  *CallSite // call site whose arguments are bound to arg0, arg1, ... (site assertions)
	// freshFrom: in an `after call ... assume` clause fresh(x) means "allocated by that call"
	freshFrom string
	wantAddr  bool // &name in a modifies clause: the variable's cell, not its value
	x     *Exec
	names map[string]SV
	lets  map[string]ast.Expr
	st    *State
	old   *State
	fr    *frame
	blk   *ssa.BasicBlock
	bound map[string]bool
}

type specErr string

func (e specErr) Error() string { return string(e) }

func sfail(format string, a ...any) { panic(specErr(fmt.Sprintf(format, a...))) }

func svOfVal(v Val, t types.Type) SV {
	if t != nil {
		if b, ok := t.Underlying().(*types.Basic); ok && len(v) == 1 {
			if b.Info()&types.IsBoolean != 0 {
				return SV{K: SBool, T: v[0].T, Ty: t, V: v}
			}
			if b.Info()&types.IsInteger != 0 {
				return SV{K: SInt, T: v[0].T, Ty: t, V: v}
			}
		}
	}
	return SV{K: SGo, V: v, Ty: t}
}

func svInt(t string) SV  { return SV{K: SInt, T: t} }
func svBool(t string) SV { return SV{K: SBool, T: t} }

// specEnv builds the environment for clauses of the function in frame fr at block blk.
func (x *Exec) specEnv(fr *frame, st *State, blk *ssa.BasicBlock, _ int) *Env {
	env := &Env{x: x, names: map[string]SV{}, lets: map[string]ast.Expr{}, st: st, old: &fr.entrySt, fr: fr, blk: blk, bound: map[string]bool{}}
	if fr.c != nil {
		for i, n := range fr.c.Params {
			if i < len(fr.fn.Params) && n != "_" {
				env.names[n] = svOfVal(fr.entryVals[i], fr.fn.Params[i].Type())
			}
		}
		for _, l := range fr.c.Lets {
			env.lets[l.Name] = l.Cl.Expr
		}
	}
	// captured variables of a closure verified on its own: the name denotes the pointer to the
	// captured cell (write *name for the variable's value)
	for i, fv := range fr.fn.FreeVars {
		if _, taken := env.names[fv.Name()]; taken {
			continue
		}
		if v, ok := fr.vals[fv]; ok {
			env.names[fv.Name()] = svOfVal(v, fv.Type())
		} else if i < len(x.entryBinds) && fr.top {
			env.names[fv.Name()] = svOfVal(x.entryBinds[i], fv.Type())
		}
	}
	return env
}

// calleeEnv: environment for a callee contract at a call site.
func (x *Exec) calleeEnv(fn *ssa.Function, ct *Contract, args []Val, st, old *State) *Env {
	env := &Env{x: x, names: map[string]SV{}, lets: map[string]ast.Expr{}, st: st, old: old, bound: map[string]bool{}}
	for i, n := range ct.Params {
		if i < len(fn.Params) && n != "_" {
			env.names[n] = svOfVal(args[i], fn.Params[i].Type())
		}
	}
	for _, l := range ct.Lets {
		env.lets[l.Name] = l.Cl.Expr
	}
	return env
}

func (e *Env) withState(st *State) *Env {
	n := *e
	n.st = st
	return &n
}

func (e *Env) child() *Env {
	n := *e
	n.names = map[string]SV{}
	for k, v := range e.names {
		n.names[k] = v
	}
	return &n
}

func (x *Exec) evalBool(env *Env, e ast.Expr) string {
	v := env.eval(e)
	if v.K != SBool {
		sfail("expected a boolean expression, got kind %d in %s", v.K, exprStr(e))
	}
	return v.T
}

func exprStr(e ast.Expr) string {
	var b strings.Builder
	ast.Fprint(&b, token.NewFileSet(), e, nil)
	return types.ExprString(e)
}

func (env *Env) int(e ast.Expr) string {
	v := env.eval(e)
	if v.K != SInt {
		sfail("expected an integer expression: %s", exprStr(e))
	}
	return v.T
}

func (env *Env) lookupLocal(name string) (SV, bool) {
	fr := env.fr
	if fr == nil {
		return SV{}, false
	}
	target := env.blk
	if target == nil {
		// clauses evaluated at the exit: the block of the (last) return
		for _, b := range fr.fn.Blocks {
			if len(b.Instrs) > 0 {
				if _, ok := b.Instrs[len(b.Instrs)-1].(*ssa.Return); ok && b != fr.fn.Recover {
					target = b
				}
			}
		}
	}
	// candidates: debug references to the variable and phis named after it; the current value at
	// `target` is the candidate that dominates target and is dominated by every other such candidate
	type cand struct {
		blk    *ssa.BasicBlock
		idx    int
		val    ssa.Value
		isAddr bool
	}
	var cs []cand
	for _, d := range fr.dbg[name] {
		cs = append(cs, cand{d.blk, d.idx, d.val, d.isAddr})
	}
	for _, b := range fr.fn.Blocks {
		for i, ins := range b.Instrs {
			p, ok := ins.(*ssa.Phi)
			if !ok {
				break
			}
			if p.Comment == name {
				cs = append(cs, cand{b, i - 1000, p, false})
			}
		}
	}
	var best *cand
	for i := range cs {
		c := &cs[i]
		if target != nil && !(c.blk == target || c.blk.Dominates(target)) {
			continue
		}
		if _, have := fr.vals[c.val]; !have {
			if _, isC := c.val.(*ssa.Const); !isC {
				continue
			}
		}
		if best == nil || (best.blk != c.blk && best.blk.Dominates(c.blk)) || (best.blk == c.blk && c.idx > best.idx) {
			best = c
		}
	}
	if best == nil {
		return SV{}, false
	}
	var v Val
	if cv, isC := best.val.(*ssa.Const); isC {
		v = env.x.constVal(cv)
	} else {
		v = fr.vals[best.val]
	}
	if best.isAddr {
		if env.wantAddr {
			return svOfVal(v, best.val.Type()), true
		}
		pt := deref(best.val.Type())
		return svOfVal(env.x.vc.load(env.st, env.x.vc.ls.of(pt), v[0].T, v[1].T), pt), true
	}
	return svOfVal(v, best.val.Type()), true
}

func (env *Env) eval(e ast.Expr) SV {
	x := env.x
	switch n := e.(type) {
	case *ast.ParenExpr:
		return env.eval(n.X)
	case *ast.Ident:
		switch n.Name {
		case "true":
			return svBool("true")
		case "false":
			return svBool("false")
		case "nil":
			return SV{K: SGo, V: Val{ic("0"), ic("0"), ic("0"), ic("0")}, Ty: nil}
		}
		isFree := false
		if env.fr != nil {
			for _, fv := range env.fr.fn.FreeVars {
				if fv.Name() == n.Name {
					isFree = true // a captured variable: the name is the pointer to its cell
				}
			}
		}
		if env.site != nil && !strings.HasPrefix(n.Name, "arg") && !isFree {
			// in a site assertion a name denotes the variable's current value (a parameter may have
			// been assigned to); old(name) gives the entry value
			if env.st != env.old {
				if v, ok := env.lookupLocal(n.Name); ok {
					return v
				}
			}
		}
		if v, ok := env.names[n.Name]; ok {
			return v
		}
		if le, ok := env.lets[n.Name]; ok {
			return env.eval(le)
		}
		if v, ok := env.lookupLocal(n.Name); ok {
			return v
		}
		if d, ok := x.eng.defines[n.Name]; ok && len(d.params) == 0 {
			return env.eval(d.body)
		}
		if n.Name == "ROOT" {
			return SV{K: SGo, V: Val{ic("ROOT")}, Ty: types.Typ[types.String]}
		}
		sfail("unknown name %q", n.Name)
	case *ast.BasicLit:
		switch n.Kind {
		case token.INT:
			v, err := strconv.ParseInt(n.Value, 0, 64)
			if err != nil {
				u, err2 := strconv.ParseUint(n.Value, 0, 64)
				if err2 != nil {
					sfail("bad int %s", n.Value)
				}
				return svInt(fmt.Sprintf("%d", u))
			}
			return svInt(itoa(v))
		case token.CHAR:
			s, _ := strconv.Unquote(n.Value)
			return svInt(itoa(int64(s[0])))
		case token.STRING:
			s, _ := strconv.Unquote(n.Value)
			return SV{K: SGo, V: Val{ic(itoa(int64(x.strConst(s))))}, Ty: types.Typ[types.String]}
		}
	case *ast.UnaryExpr:
		if id, ok := n.X.(*ast.Ident); ok && n.Op == token.AND {
			// &name: pointer to an address-taken local variable
			e2 := *env
			e2.wantAddr = true
			if v, ok := e2.lookupLocal(id.Name); ok {
				return v
			}
			sfail("not an address-taken local: %s", id.Name)
		}
		v := env.eval(n.X)
		switch n.Op {
		case token.NOT:
			return svBool(not(v.T))
		case token.SUB:
			return svInt(sx("-", "0", v.T))
		}
	case *ast.StarExpr:
		v := env.eval(n.X)
		pt := deref(v.Ty)
		return svOfVal(x.vc.load(env.st, x.vc.ls.of(pt), v.V[0].T, v.V[1].T), pt)
	case *ast.BinaryExpr:
		return env.binary(n)
	case *ast.SelectorExpr:
		v := env.eval(n.X)
		return env.selectField(v, n.Sel.Name)
	case *ast.IndexExpr:
		v := env.eval(n.X)
		return env.index(v, env.int(n.Index))
	case *ast.SliceExpr:
		return env.sliceExpr(n)
	case *ast.CallExpr:
		return env.callExpr(n)
	case *ast.CompositeLit:
		// []byte{...} / [k]byte{...}: a literal sequence
		var elems []string
		for _, el := range n.Elts {
			elems = append(elems, env.int(el))
		}
		return SV{K: SSeq, Seq: litSeq(elems)}
	}
	sfail("unsupported spec expression %s (%T)", exprStr(e), e)
	return SV{}
}

func litSeq(elems []string) *Seq {
	return &Seq{Len: itoa(int64(len(elems))), At: func(i string) string {
		t := "0"
		for k := len(elems) - 1; k >= 0; k-- {
			t = ite(eq(i, itoa(int64(k))), elems[k], t)
		}
		return t
	}}
}

func (env *Env) selectField(v SV, name string) SV {
	x := env.x
	if v.K != SGo && v.Ty == nil {
		sfail("selector .%s on non-Go value", name)
	}
	t := v.Ty
	if p, ok := t.Underlying().(*types.Pointer); ok {
		st, ok := p.Elem().Underlying().(*types.Struct)
		if !ok {
			sfail(".%s: pointer to non-struct %s", name, typeStr(t))
		}
		for i := 0; i < st.NumFields(); i++ {
			if st.Field(i).Name() == name {
				ft := st.Field(i).Type()
				off := add(v.V[1].T, itoa(int64(x.vc.ls.fieldOff(st, i))))
				return svOfVal(x.vc.load(env.st, x.vc.ls.of(ft), v.V[0].T, off), ft)
			}
		}
		sfail("no field %s in %s", name, typeStr(t))
	}
	if st, ok := t.Underlying().(*types.Struct); ok {
		for i := 0; i < st.NumFields(); i++ {
			if st.Field(i).Name() == name {
				ft := st.Field(i).Type()
				off := x.vc.ls.fieldOff(st, i)
				return svOfVal(v.V[off:off+x.vc.ls.size(ft)], ft)
			}
		}
		sfail("no field %s in %s", name, typeStr(t))
	}
	sfail("selector .%s on %s", name, typeStr(t))
	return SV{}
}

// fieldAddr returns the address (ref, off) and type of x.f for pointer x.
func (env *Env) fieldAddr(v SV, name string) (ref, off string, ft types.Type) {
	p, ok := v.Ty.Underlying().(*types.Pointer)
	if !ok {
		sfail("address of field %s: not a pointer", name)
	}
	st := p.Elem().Underlying().(*types.Struct)
	for i := 0; i < st.NumFields(); i++ {
		if st.Field(i).Name() == name {
			return v.V[0].T, add(v.V[1].T, itoa(int64(env.x.vc.ls.fieldOff(st, i)))), st.Field(i).Type()
		}
	}
	sfail("no field %s", name)
	return
}

// addrOf: address of an addressable field path
func (env *Env) addrOf(e ast.Expr) (ref, off string, ft types.Type) {
	n, ok := e.(*ast.SelectorExpr)
	if !ok {
		sfail("addrof: not a field path")
	}
	base := env.eval(n.X)
	if _, isPtr := base.Ty.Underlying().(*types.Pointer); isPtr {
		return env.fieldAddr(base, n.Sel.Name)
	}
	st, ok := base.Ty.Underlying().(*types.Struct)
	if !ok {
		sfail("addrof: %s is not a struct", typeStr(base.Ty))
	}
	r, o, _ := env.addrOf(n.X)
	for i := 0; i < st.NumFields(); i++ {
		if st.Field(i).Name() == n.Sel.Name {
			return r, add(o, itoa(int64(env.x.vc.ls.fieldOff(st, i)))), st.Field(i).Type()
		}
	}
	sfail("no field %s", n.Sel.Name)
	return
}

func (env *Env) index(v SV, i string) SV {
	x := env.x
	if v.K == SSeq {
		return svInt(v.Seq.At(i))
	}
	switch t := v.Ty.Underlying().(type) {
	case *types.Slice:
		es := x.vc.ls.size(t.Elem())
		return svOfVal(x.vc.load(env.st, x.vc.ls.of(t.Elem()), v.V[0].T, add(v.V[1].T, mulc(i, es))), t.Elem())
	case *types.Array:
		es := x.vc.ls.size(t.Elem())
		return svOfVal(selectCells(v.V, i, int(t.Len()), es), t.Elem())
	case *types.Pointer:
		if arr, ok := t.Elem().Underlying().(*types.Array); ok {
			es := x.vc.ls.size(arr.Elem())
			return svOfVal(x.vc.load(env.st, x.vc.ls.of(arr.Elem()), v.V[0].T, add(v.V[1].T, mulc(i, es))), arr.Elem())
		}
	case *types.Basic:
		if t.Info()&types.IsString != 0 {
			return svInt(sx("strat", v.V[0].T, i))
		}
	}
	sfail("cannot index %s", typeStr(v.Ty))
	return SV{}
}

func (env *Env) toSeq(v SV) *Seq {
	x := env.x
	if v.K == SSeq {
		return v.Seq
	}
	if v.Ty == nil {
		sfail("cannot view value as a sequence")
	}
	mem := env.st.Mem
	switch t := v.Ty.Underlying().(type) {
	case *types.Slice:
		if x.vc.ls.size(t.Elem()) != 1 {
			sfail("bytes(): element type %s is not scalar", typeStr(t.Elem()))
		}
		ref, off := v.V[0].T, v.V[1].T
		return &Seq{Len: v.V[2].T, At: func(i string) string { return x.vc.read(mem, ref, add(off, i)) }}
	case *types.Array:
		var elems []string
		for _, c := range v.V {
			elems = append(elems, c.T)
		}
		return litSeq(elems)
	case *types.Pointer:
		if arr, ok := t.Elem().Underlying().(*types.Array); ok {
			ref, off := v.V[0].T, v.V[1].T
			return &Seq{Len: itoa(arr.Len()), At: func(i string) string { return x.vc.read(mem, ref, add(off, i)) }}
		}
	case *types.Basic:
		if t.Info()&types.IsString != 0 {
			s := v.V[0].T
			return &Seq{Len: sx("strlen", s), At: func(i string) string { return sx("strat", s, i) }}
		}
		if t.Info()&types.IsInteger != 0 {
			return litSeq([]string{v.T})
		}
	}
	sfail("cannot view %s as a sequence", typeStr(v.Ty))
	return nil
}

func (env *Env) sliceExpr(n *ast.SliceExpr) SV {
	v := env.eval(n.X)
	if v.K == SSeq || (v.Ty != nil && !isSliceType(v.Ty)) {
		s := env.toSeq(v)
		lo, hi := "0", s.Len
		if n.Low != nil {
			lo = env.int(n.Low)
		}
		if n.High != nil {
			hi = env.int(n.High)
		}
		return SV{K: SSeq, Seq: &Seq{Len: sub(hi, lo), At: func(i string) string { return s.At(add(lo, i)) }}}
	}
	t := v.Ty.Underlying().(*types.Slice)
	es := env.x.vc.ls.size(t.Elem())
	lo, hi := "0", v.V[2].T
	if n.Low != nil {
		lo = env.int(n.Low)
	}
	if n.High != nil {
		hi = env.int(n.High)
	}
	return SV{K: SGo, Ty: v.Ty, V: Val{v.V[0], ic(add(v.V[1].T, mulc(lo, es))), ic(sub(hi, lo)), ic(sub(v.V[3].T, lo))}}
}

func isSliceType(t types.Type) bool {
	_, ok := t.Underlying().(*types.Slice)
	return ok
}

func (env *Env) binary(n *ast.BinaryExpr) SV {
	switch n.Op {
	case token.LAND:
		return svBool(and(env.x.evalBool(env, n.X), env.x.evalBool(env, n.Y)))
	case token.LOR:
		return svBool(or(env.x.evalBool(env, n.X), env.x.evalBool(env, n.Y)))
	}
	a, b := env.eval(n.X), env.eval(n.Y)
	switch n.Op {
	case token.EQL, token.NEQ:
		e := env.equal(a, b)
		if n.Op == token.NEQ {
			e = not(e)
		}
		return svBool(e)
	}
	if a.K != SInt || b.K != SInt {
		sfail("arithmetic on non-integers: %s", exprStr(n))
	}
	switch n.Op {
	case token.ADD:
		return svInt(sx("+", a.T, b.T))
	case token.SUB:
		return svInt(sx("-", a.T, b.T))
	case token.MUL:
		return svInt(sx("*", a.T, b.T))
	case token.QUO:
		return svInt(sx("div", a.T, b.T))
	case token.REM:
		return svInt(sx("mod", a.T, b.T))
	case token.LSS:
		return svBool(sx("<", a.T, b.T))
	case token.LEQ:
		return svBool(sx("<=", a.T, b.T))
	case token.GTR:
		return svBool(sx(">", a.T, b.T))
	case token.GEQ:
		return svBool(sx(">=", a.T, b.T))
	case token.SHL:
		return svInt(sx("*", a.T, sx("pow2", b.T)))
	}
	sfail("unsupported operator %s", n.Op)
	return SV{}
}

var qcount int

func (env *Env) equal(a, b SV) string {
	if a.K == SBool && b.K == SBool {
		return eq(a.T, b.T)
	}
	if a.K == SInt && b.K == SInt {
		return eq(a.T, b.T)
	}
	// nil comparisons
	if a.K == SGo && b.K == SGo && (a.Ty == nil || b.Ty == nil) {
		v := a
		if a.Ty == nil {
			v = b
		}
		if v.Ty == nil {
			return "true"
		}
		return eq(v.V[0].T, "0")
	}
	if a.K == SSeq || b.K == SSeq {
		sa, sb := env.toSeq(a), env.toSeq(b)
		qcount++
		i := fmt.Sprintf("qi%d", qcount)
		return and(eq(sa.Len, sb.Len), fmt.Sprintf("(forall ((%s Int)) (=> (and (<= 0 %s) (< %s %s)) (= %s %s)))", i, i, i, sa.Len, sa.At(i), sb.At(i)))
	}
	if a.K == SGo && b.K == SGo {
		if len(a.V) != len(b.V) {
			sfail("comparing values of different shapes")
		}
		var cs []string
		for k := range a.V {
			cs = append(cs, eq(a.V[k].T, b.V[k].T))
		}
		return and(cs...)
	}
	if a.K == SInt && b.K == SGo && len(b.V) == 1 {
		return eq(a.T, b.V[0].T)
	}
	if b.K == SInt && a.K == SGo && len(a.V) == 1 {
		return eq(b.T, a.V[0].T)
	}
	sfail("cannot compare these values")
	return ""
}

func (env *Env) callExpr(n *ast.CallExpr) SV {
	x := env.x
	fn, ok := n.Fun.(*ast.Ident)
	if !ok {
		sfail("unsupported call %s", exprStr(n))
	}
	arg := func(i int) SV { return env.eval(n.Args[i]) }
	switch fn.Name {
	case "old":
		return env.withState(env.old).eval(n.Args[0])
	case "implies":
		return svBool(implies(x.evalBool(env, n.Args[0]), x.evalBool(env, n.Args[1])))
	case "iff":
		return svBool(eq(x.evalBool(env, n.Args[0]), x.evalBool(env, n.Args[1])))
	case "ite":
		c := x.evalBool(env, n.Args[0])
		a, b := arg(1), arg(2)
		if a.K == SBool {
			return svBool(ite(c, a.T, b.T))
		}
		if a.K == SInt {
			return svInt(ite(c, a.T, b.T))
		}
		if a.K == SSeq || b.K == SSeq {
			sa, sb := env.toSeq(a), env.toSeq(b)
			return SV{K: SSeq, Seq: &Seq{Len: ite(c, sa.Len, sb.Len), At: func(i string) string { return ite(c, sa.At(i), sb.At(i)) }}}
		}
		sfail("ite on unsupported kinds")
	case "len":
		v := arg(0)
		if v.K == SSeq {
			return svInt(v.Seq.Len)
		}
		switch t := v.Ty.Underlying().(type) {
		case *types.Slice:
			return svInt(v.V[2].T)
		case *types.Array:
			return svInt(itoa(t.Len()))
		case *types.Basic:
			return svInt(sx("strlen", v.V[0].T))
		case *types.Map:
			return svInt(x.vc.mapFamily(t).lenTerm(x.vc, env.st, v.V[0].T))
		case *types.Pointer:
			if arr, ok := t.Elem().Underlying().(*types.Array); ok {
				return svInt(itoa(arr.Len()))
			}
		}
		sfail("len of %s", typeStr(v.Ty))
	case "cap":
		return svInt(arg(0).V[3].T)
	case "forall", "exists":
		id := n.Args[0].(*ast.Ident).Name
		qcount++
		q := fmt.Sprintf("%s_q%d", id, qcount)
		lo, hi := env.int(n.Args[1]), env.int(n.Args[2])
		// small constant ranges are expanded (no quantifier left for the solver)
		if l, err1 := strconv.ParseInt(lo, 10, 64); err1 == nil {
			if h, err2 := strconv.ParseInt(hi, 10, 64); err2 == nil && h-l <= 8 {
				var parts []string
				for k := l; k < h; k++ {
					ch := env.child()
					ch.names[id] = svInt(itoa(k))
					parts = append(parts, x.evalBool(ch, n.Args[3]))
				}
				if fn.Name == "forall" {
					return svBool(and(parts...))
				}
				return svBool(or(parts...))
			}
		}
		ch := env.child()
		ch.names[id] = svInt(q)
		ch.bound = map[string]bool{q: true}
		for k := range env.bound {
			ch.bound[k] = true
		}
		body := x.evalBool(ch, n.Args[3])
		rng := and(sx("<=", lo, q), sx("<", q, hi))
		if fn.Name == "forall" && x.qRegister && len(env.bound) == 0 {
			// a universally quantified hypothesis: remember how to instantiate it
			penv, bodyExpr := env, n.Args[3]
			x.qInst = append(x.qInst, func(idx string) string {
				c2 := penv.child()
				c2.names[id] = svInt(idx)
				return implies(and(sx("<=", lo, idx), sx("<", idx, hi)), x.evalBool(c2, bodyExpr))
			})
		}
		if fn.Name == "forall" {
			return svBool(fmt.Sprintf("(forall ((%s Int)) %s)", q, implies(rng, body)))
		}
		return svBool(fmt.Sprintf("(exists ((%s Int)) %s)", q, and(rng, body)))
	case "forallcut":
		// forallcut(i, lo, hi, S, idx, body): forall(i, lo, hi, body), proved as one obligation per
		// part of the concatenation S, the part being the one the index idx falls in.
		id := n.Args[0].(*ast.Ident).Name
		qcount++
		q := fmt.Sprintf("%s_q%d", id, qcount)
		lo, hi := env.int(n.Args[1]), env.int(n.Args[2])
		ch := env.child()
		ch.names[id] = svInt(q)
		ch.bound = map[string]bool{q: true}
		for k := range env.bound {
			ch.bound[k] = true
		}
		sq := env.toSeq(arg(3))
		idx := ch.int(n.Args[4])
		body := x.evalBool(ch, n.Args[5])
		rng := and(sx("<=", lo, q), sx("<", q, hi))
		whole := fmt.Sprintf("(forall ((%s Int)) %s)", q, implies(rng, body))
		if len(sq.Cuts) > 1 {
			var parts []string
			prev := ""
			for k, c := range sq.Cuts {
				seg := sx("<", idx, c)
				if k > 0 {
					seg = and(sx("<=", prev, idx), seg)
				}
				if k == len(sq.Cuts)-1 {
					seg = "true"
					if k > 0 {
						seg = sx("<=", prev, idx)
					}
				}
				prev = c
				parts = append(parts, fmt.Sprintf("(forall ((%s Int)) %s)", q, implies(and(rng, seg), body)))
			}
			if x.cutParts == nil {
				x.cutParts = map[string][]string{}
			}
			x.cutParts[whole] = parts
		}
		return svBool(whole)
	case "cat":
		var parts []*Seq
		for i := range n.Args {
			parts = append(parts, env.toSeq(arg(i)))
		}
		return SV{K: SSeq, Seq: catSeq(x, parts)}
	case "bytes":
		return SV{K: SSeq, Seq: env.toSeq(arg(0))}
	case "seq":
		var elems []string
		for i := range n.Args {
			elems = append(elems, env.int(n.Args[i]))
		}
		return SV{K: SSeq, Seq: litSeq(elems)}
	case "be16", "be32", "be64":
		nb := map[string]int{"be16": 2, "be32": 4, "be64": 8}[fn.Name]
		v := env.int(n.Args[0])
		var elems []string
		for i := 0; i < nb; i++ {
			elems = append(elems, beByte(v, nb, i))
		}
		return SV{K: SSeq, Seq: litSeq(elems)}
	case "u16", "u32", "u64":
		nb := map[string]int{"u16": 2, "u32": 4, "u64": 8}[fn.Name]
		s := env.toSeq(arg(0))
		off := "0"
		if len(n.Args) > 1 {
			off = env.int(n.Args[1])
		}
		val := beTerm(func(i int) string { return s.At(add(off, itoa(int64(i)))) }, nb)
		// digit lemma (an arithmetic tautology): if the cells are bytes, they are the base-256 digits of the value
		closed := true
		for b := range env.bound {
			if strings.Contains(val, b) {
				closed = false
			}
		}
		if closed && len(val) < 4000 {
			key := "digits:" + val
			if !x.vc.S.decl[key] {
				x.vc.S.decl[key] = true
				var rng, digs []string
				for i := 0; i < nb; i++ {
					c := s.At(add(off, itoa(int64(i))))
					rng = append(rng, sx("<=", "0", c), sx("<=", c, "255"))
					digs = append(digs, eq(beByte(val, nb, i), c))
				}
				x.vc.S.raw("(assert " + implies(and(rng...), and(digs...)) + ")")
			}
		}
		return svInt(val)
	case "zeros":
		return SV{K: SSeq, Seq: &Seq{Len: env.int(n.Args[0]), At: func(string) string { return "0" }}}
	case "min":
		a, b := env.int(n.Args[0]), env.int(n.Args[1])
		return svInt(ite(sx("<", a, b), a, b))
	case "max":
		a, b := env.int(n.Args[0]), env.int(n.Args[1])
		return svInt(ite(sx(">", a, b), a, b))
	case "bit":
		// bit i (counted from the most significant bit of byte 0) of a byte sequence
		s := env.toSeq(arg(0))
		i := env.int(n.Args[1])
		return svBool(eq(sx("bitat", s.At(sx("div", i, "8")), sx("-", "7", sx("mod", i, "8"))), "1"))
	case "has", "get", "has_old", "get_old":
		menv := env
		if strings.HasSuffix(fn.Name, "_old") {
			menv = env.withState(env.old)
		}
		mv := menv.eval(n.Args[0])
		mt, ok := mv.Ty.Underlying().(*types.Map)
		if !ok {
			sfail("%s: not a map", fn.Name)
		}
		fam := x.vc.mapFamily(mt)
		ver := fam.cur(x.vc, menv.st)
		kv := env.eval(n.Args[1])
		var key Val
		switch kv.K {
		case SGo:
			key = kv.V
		case SInt:
			key = Val{ic(kv.T)}
		case SSeq:
			for i := 0; i < len(fam.kl.cells); i++ {
				key = append(key, ic(kv.Seq.At(itoa(int64(i)))))
			}
		}
		if len(key) != len(fam.kl.cells) {
			sfail("%s: key has %d cells, map key needs %d", fn.Name, len(key), len(fam.kl.cells))
		}
		m := mv.V[0].T
		if strings.HasPrefix(fn.Name, "has") {
			return svBool(and(not(eq(m, "0")), fam.has(ver, m, key)))
		}
		return svOfVal(fam.get(ver, m, key), mt.Elem())
	case "has_method":
		// static: the dynamic type of interface argument k (built by MakeInterface at the site) has the method
		k := env.argIndex(n.Args[0])
		name, _ := strconv.Unquote(n.Args[1].(*ast.BasicLit).Value)
		t := env.staticDynType(k)
		if t == nil {
			return svBool("true") // unknown dynamic type: may have it
		}
		ms := x.eng.prog.MethodSets.MethodSet(t)
		for i := 0; i < ms.Len(); i++ {
			if ms.At(i).Obj().Name() == name {
				return svBool("true")
			}
		}
		return svBool("false")
	case "writer_kind", "reader_kind":
		// 0 unknown, 1 record (needs the complete record in one Write / delivers arbitrary chunks),
		// 2 stream writer (chunk-homomorphic) / in-memory reader (delivers in one chunk)
		k := env.argIndex(n.Args[0])
		t := env.staticDynType(k)
		return svInt(itoa(int64(x.eng.ioKind(t, fn.Name == "writer_kind"))))
	case "called_with":
		// called_with("callee", i, b0, b1): some earlier call to callee on this path had {b0, b1} as its
		// argument i
		name, _ := strconv.Unquote(n.Args[0].(*ast.BasicLit).Value)
		idx, _ := strconv.Atoi(n.Args[1].(*ast.BasicLit).Value)
		b0, b1 := env.int(n.Args[2]), env.int(n.Args[3])
		if x.trace == nil {
			sfail("called_with needs a trace")
		}
		var ms []string
		for _, c := range x.trace.calls {
			if calleeMatch(name, c.Callee) && idx < len(c.Args) && len(c.Args[idx]) == 2 {
				ms = append(ms, and(c.Reach, eq(c.Args[idx][0].T, b0), eq(c.Args[idx][1].T, b1)))
			}
		}
		if len(ms) == 0 {
			return svBool("false")
		}
		return svBool(or(ms...))
	case "callres_arg":
		// callres_arg("callee", i, b0, b1): the result of the latest earlier call to callee whose
		// argument i (a two-byte array: a field or transaction ID) equals {b0, b1} -- independent of the
		// order in which the calls are written
		name, _ := strconv.Unquote(n.Args[0].(*ast.BasicLit).Value)
		idx, _ := strconv.Atoi(n.Args[1].(*ast.BasicLit).Value)
		b0, b1 := env.int(n.Args[2]), env.int(n.Args[3])
		if x.trace == nil {
			sfail("callres_arg needs a trace")
		}
		var cells Val
		var ty types.Type
		for _, c := range x.trace.calls { // oldest first: later matches take precedence
			if !calleeMatch(name, c.Callee) || c.Res == nil || idx >= len(c.Args) || len(c.Args[idx]) != 2 {
				continue
			}
			rt := c.Instr.Common().Signature().Results()
			if rt.Len() != 1 {
				continue
			}
			match := and(c.Reach, eq(c.Args[idx][0].T, b0), eq(c.Args[idx][1].T, b1))
			if cells == nil {
				ty = rt.At(0).Type()
				cells = make(Val, len(c.Res))
				for k := range cells {
					cells[k] = Cell{T: x.vc.S.freshConst("nocall", c.Res[k].B), B: c.Res[k].B}
				}
			}
			if len(c.Res) != len(cells) {
				continue
			}
			next := make(Val, len(cells))
			for k := range cells {
				next[k] = Cell{T: ite(match, c.Res[k].T, cells[k].T), B: cells[k].B}
			}
			cells = next
		}
		if cells == nil {
			sfail("callres: no call to %s before this point", name)
		}
		return svOfVal(cells, ty)
	case "callarg":
		// callarg("callee#k", i): argument i of that call site (receiver first)
		name, _ := strconv.Unquote(n.Args[0].(*ast.BasicLit).Value)
		idx, _ := strconv.Atoi(n.Args[1].(*ast.BasicLit).Value)
		want := 0
		if h := strings.LastIndex(name, "#"); h >= 0 {
			if k, err := strconv.Atoi(name[h+1:]); err == nil {
				want, name = k, name[:h]
			}
		}
		for _, c := range x.trace.calls {
			if calleeMatch(name, c.Callee) && (want == 0 || c.Ord == want) && idx < len(c.Args) {
				return svOfVal(c.Args[idx], c.ArgVals[idx].Type())
			}
		}
		sfail("callarg: no call to %s", name)
	case "called":
		// called("C[#k]"): this execution passed through a call to C made by the function under
		// contract (the disjunction of the sites' reachability conditions)
		name, _ := strconv.Unquote(n.Args[0].(*ast.BasicLit).Value)
		if x.trace == nil {
			sfail("called needs a trace")
		}
		want := 0
		if h := strings.LastIndex(name, "#"); h >= 0 {
			if k, err := strconv.Atoi(name[h+1:]); err == nil {
				want, name = k, name[:h]
			}
		}
		var rs []string
		for _, c := range x.trace.calls {
			if c.Depth == 0 && calleeMatch(name, c.Callee) && (want == 0 || c.Ord == want) {
				rs = append(rs, c.Reach)
			}
		}
		if len(rs) == 0 {
			return svBool("false")
		}
		return svBool(or(rs...))
	case "callres":
		name, _ := strconv.Unquote(n.Args[0].(*ast.BasicLit).Value)
		if x.trace == nil {
			sfail("callres needs a trace")
		}
		var last *CallSite
		want := 0
		if h := strings.LastIndex(name, "#"); h >= 0 {
			if k, err := strconv.Atoi(name[h+1:]); err == nil {
				want, name = k, name[:h]
			}
		}
		for _, c := range x.trace.calls {
			if calleeMatch(name, c.Callee) && c.Res != nil && (want == 0 || c.Ord == want) {
				last = c
			}
		}
		if last == nil {
			sfail("callres: no call to %s before this point", name)
		}
		rt := last.Instr.Common().Signature().Results()
		if len(n.Args) > 1 {
			k, err := strconv.Atoi(n.Args[1].(*ast.BasicLit).Value)
			if err != nil || k >= rt.Len() {
				sfail("callres: bad result index")
			}
			off := x.vc.ls.tupleOff(rt, k)
			return svOfVal(last.Res[off:off+x.vc.ls.size(rt.At(k).Type())], rt.At(k).Type())
		}
		if rt.Len() == 1 {
			return svOfVal(last.Res, rt.At(0).Type())
		}
		return svOfVal(last.Res, rt)
	case "obj":
		// the object a reader / writer / pointer value denotes (interface: the pointer inside)
		v := arg(0)
		_, ref := streamKey(x, v.Ty, v.V)
		return svInt(ref)
	case "written":
		return svInt(gget(x, env.st, "GH_WRITTEN", arg(0).V[1].T))
	case "wcalls":
		return svInt(gget(x, env.st, "GH_WCALLS", arg(0).V[1].T))
	case "spos", "ssize":
		// position in / length of the byte stream a reader value denotes (streams plug-in)
		v := arg(0)
		_, ref := streamKey(x, v.Ty, v.V)
		if fn.Name == "ssize" {
			return svInt(sx("ssize", ref))
		}
		return svInt(gget(x, env.st, "GH_SPOS", ref))
	case "pjoin2", "pjoin3", "pfmt", "pdir", "pbase", "strcat", "prel":
		// the path algebra of the paths plug-in (filepath.Join, Sprintf of a name template, Dir, Base,
		// string concatenation) as spec functions over strings
		var as []string
		for i := range n.Args {
			as = append(as, arg(i).V[0].T)
		}
		return SV{K: SGo, V: Val{ic(sx(fn.Name, as...))}, Ty: types.Typ[types.String]}
	case "inroot", "rooted", "seg", "relsafe":
		v := arg(0)
		return svBool(sx(fn.Name, v.V[0].T))
	case "locked":
		// locked(x, "mu"): the mutex field mu of *x is held at this point (ghost lock set)
		v := arg(0)
		name, _ := strconv.Unquote(n.Args[1].(*ast.BasicLit).Value)
		off, _ := x.fieldAt(v.Ty, name)
		key := lockKey(x.vc, Val{v.V[0], ic(add(v.V[1].T, itoa(int64(off))))})
		return svBool(eq(ghost(env.st, key), "1"))
	case "bitof":
		return svInt(sx("bitat", env.int(n.Args[0]), env.int(n.Args[1])))
	case "reqdata":
		// Data of field (hi, lo) of the parsed request (mode A ghost object REQ)
		hi, lo := env.int(n.Args[0]), env.int(n.Args[1])
		off := sx("*", sx("+", sx("*", hi, "256"), lo), "16")
		ft := x.eng.fieldType()
		doff, dt := x.fieldAt(types.NewPointer(ft), "Data")
		return svOfVal(x.vc.load(env.st, x.vc.ls.of(dt), "REQ", add(off, itoa(int64(doff)))), dt)
	case "priv":
		v := arg(0)
		x.vc.S.declFun("priv", []string{"Int", "Int", "Int"}, "Bool")
		return svBool(sx("priv", v.V[0].T, v.V[1].T, env.int(n.Args[1])))
	case "isnil":
		return svBool(eq(arg(0).V[0].T, "0"))
	case "addrof":
		// addrof(x.f.g): address of a field path (pointer SV); ptsto(s, x.f.g): the slice s starts there
		r, o, ft := env.addrOf(n.Args[0])
		return svOfVal(Val{ic(r), ic(o)}, types.NewPointer(ft))
	case "ptsto":
		r, o, _ := env.addrOf(n.Args[1])
		a := arg(0)
		return svBool(and(eq(a.V[0].T, r), eq(a.V[1].T, o)))
	case "ref":
		return svInt(arg(0).V[0].T)
	case "off":
		return svInt(arg(0).V[1].T)
	case "fresh":
		if env.freshFrom != "" {
			return svBool(sx(">=", arg(0).V[0].T, env.freshFrom))
		}
		return svBool(sx(">=", arg(0).V[0].T, env.old.Alloc))
	case "disjoint":
		a, b := arg(0), arg(1)
		return svBool(not(eq(a.V[0].T, b.V[0].T)))
	case "same":
		a, b := arg(0), arg(1)
		var cs []string
		for k := range a.V {
			cs = append(cs, eq(a.V[k].T, b.V[k].T))
		}
		return svBool(and(cs...))
	case "iserr":
		return svBool(not(eq(arg(0).V[0].T, "0")))
	case "is_eof":
		v := arg(0)
		g := x.eofVal(env.st)
		return svBool(and(eq(v.V[0].T, g[0].T), eq(v.V[1].T, g[1].T), eq(v.V[2].T, g[2].T)))
	case "int":
		return svInt(env.int(n.Args[0]))
	case "ghost":
		name := n.Args[0].(*ast.Ident).Name
		return svInt(ghost(env.st, name))
	}
	if d, ok := x.eng.defines[fn.Name]; ok {
		if len(d.params) != len(n.Args) {
			sfail("%s expects %d arguments", fn.Name, len(d.params))
		}
		ch := env.child()
		for i, p := range d.params {
			ch.names[p] = arg(i)
		}
		return ch.eval(d.body)
	}
	sfail("unknown spec function %s", fn.Name)
	return SV{}
}

// catSeq concatenates sequences; lengths are named so the term stays small.
func catSeq(x *Exec, parts []*Seq) *Seq {
	var ends []string
	total := "0"
	var cuts []string
	for _, p := range parts {
		start := total
		total = x.vc.S.def("catend", ic(add(total, p.Len))).T
		ends = append(ends, total)
		if n := len(p.Cuts); n > 1 {
			for _, c := range p.Cuts[:n-1] {
				cuts = append(cuts, add(start, c))
			}
		}
		cuts = append(cuts, total)
	}
	return &Seq{Len: total, Cuts: cuts, At: func(i string) string {
		t := "0"
		for k := len(parts) - 1; k >= 0; k-- {
			start := "0"
			if k > 0 {
				start = ends[k-1]
			}
			t = ite(sx("<", i, ends[k]), parts[k].At(sub(i, start)), t)
		}
		return t
	}}
}

// evalLoc: a set of memory cells as a predicate over (r, o).
func (x *Exec) evalLoc(env *Env, e ast.Expr) string {
	switch n := e.(type) {
	case *ast.SelectorExpr:
		base := env.eval(n.X)
		ref, off, ft := env.fieldAddr(base, n.Sel.Name)
		sz := x.vc.ls.size(ft)
		return and(eq("r", ref), sx("<=", off, "o"), sx("<", "o", add(off, itoa(int64(sz)))))
	case *ast.UnaryExpr:
		// &name: the cells of an address-taken local variable
		if id, ok := n.X.(*ast.Ident); ok && n.Op == token.AND {
			e2 := *env
			e2.wantAddr = true
			if v, ok := e2.lookupLocal(id.Name); ok {
				if _, isPtr := v.Ty.Underlying().(*types.Pointer); isPtr {
					sz := x.vc.ls.size(deref(v.Ty))
					return and(eq("r", v.V[0].T), sx("<=", v.V[1].T, "o"), sx("<", "o", add(v.V[1].T, itoa(int64(sz)))))
				}
			}
			sfail("not an address-taken local: %s", id.Name)
		}
	case *ast.StarExpr:
		v := env.eval(n.X)
		sz := x.vc.ls.size(deref(v.Ty))
		return and(eq("r", v.V[0].T), sx("<=", v.V[1].T, "o"), sx("<", "o", add(v.V[1].T, itoa(int64(sz)))))
	case *ast.CallExpr:
		if id, ok := n.Fun.(*ast.Ident); ok && id.Name == "obj" {
			v := env.eval(n.Args[0])
			return eq("r", v.V[0].T)
		}
		if id, ok := n.Fun.(*ast.Ident); ok && id.Name == "old" {
			return x.evalLoc(env.withState(env.old), n.Args[0])
		}
	}
	if id, ok := e.(*ast.Ident); ok && id.Name == "nothing" {
		return "false"
	}
	// slice contents
	v := env.eval(e)
	if v.K == SGo && v.Ty != nil {
		if t, ok := v.Ty.Underlying().(*types.Slice); ok {
			es := x.vc.ls.size(t.Elem())
			return and(eq("r", v.V[0].T), sx("<=", v.V[1].T, "o"), sx("<", "o", add(v.V[1].T, mulc(v.V[2].T, es))))
		}
	}
	sfail("not a location: %s", exprStr(e))
	return ""
}

// eofVal: the value of the global io.EOF (an unknown but fixed non-nil error).
func (x *Exec) eofVal(st *State) Val {
	S := x.vc.S
	if !S.decl["io.EOF"] {
		S.decl["io.EOF"] = true
		S.raw("(declare-fun ioEOF_t () Int)\n(declare-fun ioEOF_a () Int)\n(declare-fun ioEOF_b () Int)\n(assert (> ioEOF_t 0))")
	}
	return Val{ic("ioEOF_t"), ic("ioEOF_a"), ic("ioEOF_b")}
}

func (env *Env) argIndex(e ast.Expr) int {
	id, ok := e.(*ast.Ident)
	if !ok || !strings.HasPrefix(id.Name, "arg") {
		sfail("expected argK")
	}
	k, err := strconv.Atoi(id.Name[3:])
	if err != nil || env.site == nil || k >= len(env.site.ArgVals) {
		sfail("bad argument reference %s", id.Name)
	}
	return k
}

// staticDynType: the concrete type stored into interface argument k at this site, if the
// interface value is built right here (MakeInterface); nil when unknown.
func (env *Env) staticDynType(k int) types.Type {
	v := env.site.ArgVals[k]
	for {
		switch u := v.(type) {
		case *ssa.MakeInterface:
			return u.X.Type()
		case *ssa.ChangeInterface:
			v = u.X
			continue
		}
		return nil
	}
}
