package main

// Which functions and plug-ins decide which property.

type Plan struct {
	Items       []Item
	Decided     []string
	Undecided   []string
	Assumptions []string
}

var plugins = map[string]func(r *Run, it Item){}

func fnItems(kinds []string, keys ...string) []Item {
	var out []Item
	for _, k := range keys {
		out = append(out, Item{Func: k, Kinds: kinds})
	}
	return out
}

var plans = map[string]*Plan{}

func init() {
	plans["C05"] = &Plan{
		Items: []Item{{Plugin: "privileges"}, {Func: "hotline.(*ClientConn).Authorize"}, {Func: "hotline.(*AccessBitmap).IsSet"}},
		Decided: []string{
			"no effect without privilege: at every effect site of every registered handler the path condition implies the governing privilege (by target kind)",
			"every effect site is classified (governed or explicitly ungoverned) in spec/privileges.spec",
			"no spurious denial; clean denial (nothing changed or sent, the denial is what is returned); no success reply while an always-required privilege is missing",
			"Authorize(i) == bit i of the account's access bitmap (counted from the most significant bit of byte 0), false without account",
		},
		Undecided: []string{"target kinds other than regular file / directory (FIFOs, devices)", "per-recipient ReadChat filter and the AnyName rule are decided under C12 / C13"},
	}
	plans["C16"] = &Plan{
		Items: []Item{{Plugin: "accesstables"}, {Func: "hotline.(*AccessBitmap).IsSet"}, {Func: "hotline.(*AccessBitmap).Set"}, {Func: "hotline.(*ClientConn).Authorize"}},
		Decided: []string{
			"IsSet(i) is bit i counted from the most significant bit of byte 0; Set(i) sets exactly that bit (all 64 indices, all byte values)",
			"MarshalYAML: each of the 40 named fields equals the bit of its privilege number (spec/access_names.spec); no field without row, no row without field",
			"UnmarshalYAML named form: bit j is set iff j is a defined privilege whose name maps to true; legacy form: byte i of the bitmap is element i of the array",
			"Authorize decides by the same bit (proved against IsSet's contract)",
		},
		Undecided: []string{"YAML library round trip (assumed)", "save/load lemma is the composition of the two table results (argued in DESIGN.md, propositional)"},
	}
	plans["C06"] = &Plan{
		Items: []Item{
			{Plugin: "handler-contract", Func: "mobius.HandleNewUser", Kinds: []string{"site", "inv-init", "inv-step"}},
			{Plugin: "handler-contract", Func: "mobius.HandleUpdateUser", Kinds: []string{"site", "inv-init", "inv-step"}},
			{Plugin: "handler-contract", Func: "mobius.HandleDisconnectUser", Kinds: []string{"site"}},
			{Func: "hotline.NewAccount"}, {Func: "hotline.(*AccessBitmap).IsSet"}, {Func: "hotline.(*ClientConn).Authorize"},
		},
		Decided: []string{
			"at both AccountManager.Create sites (350 NewUser, 349 UpdateUser create branch): every bit of the created account's bitmap is held by the creator, for all 2^64 x 2^64 bitmap pairs (64-iteration subset loop with inductive invariant)",
			"HandleDisconnectUser: BanList.Add (both options) and the delayed Disconnect are reached only if the target lacks cannot-be-disconnected (bit 23)",
		},
	}
	plans["C01"] = &Plan{
		Items: fnItems(nil,
			"hotline.(*Field).Read", "hotline.NewField", "hotline.(*Field).Write", "hotline.FieldScanner",
			"hotline.transactionScanner", "hotline.(*Field).DecodeInt", "hotline.EncodeString",
			"hotline.(*User).Read", "hotline.(*User).Write",
			"hotline.(*FileNameWithInfo).Read", "hotline.(*FileNameWithInfo).Write",
			"hotline.(*FlatFileInformationFork).Read", "hotline.(*FlatFileInformationFork).DataSize", "hotline.(*FlatFileInformationFork).Size",
			"hotline.(*FlatFileInformationFork).ReadNameSize", "hotline.(*FlatFileInformationFork).SetComment",
			"hotline.(*FlatFileInformationFork).UnmarshalBinary", "hotline.(*FlatFileInformationFork).Write",
			"hotline.(*flattenedFileObject).Read", "hotline.(*FileHeader).Read",
			"hotline.(*NewsArtList).Read", "hotline.(*NewsCategoryListData15).Read", "hotline.(*NewsArtListData).Read", "hotline.(*TrackerRegistration).Read",
			"hotline.(*handshake).Write", "hotline.(*handshake).Valid", "hotline.(*transfer).Write",
			"hotline.(*FilePathItem).Write", "hotline.fileItemScanner", "hotline.NewForkInfoList",
		),
		Decided: []string{
			"encoder Read methods: every call returns the next bytes of the wire layout (cursor contract), for every buffer size",
			"decoders: fields equal the corresponding sub-ranges of the input",
		},
	}
}
