package main

// Which functions and plug-ins decide which property.

type Plan struct {
	Items       []Item
	Decided     []string
	Undecided   []string
	Assumptions []string
}

var plugins = map[string]func(r *Run, it Item){}

func fnItems(kinds []string, keys ...string) []Item {
	var out []Item
	for _, k := range keys {
		out = append(out, Item{Func: k, Kinds: kinds})
	}
	return out
}

var plans = map[string]*Plan{}

func init() {
	plans["C05"] = &Plan{
		Items: []Item{{Plugin: "privileges"}, {Func: "hotline.(*ClientConn).Authorize"}, {Func: "hotline.(*AccessBitmap).IsSet"},
			// the kind (file / folder) that selects the privilege is the kind of the addressed item
			{Plugin: "sites", Func: "hotline.(*FilePath).IsDropbox", Kinds: []string{"site", "post"}},
			{Plugin: "sites", Func: "hotline.(*FilePath).IsUploadDir", Kinds: []string{"site", "post"}},
			{Plugin: "handler-contract", Func: "mobius.HandleTranAgreed", Kinds: []string{"site"}},
			{Plugin: "handler-contract", Func: "mobius.HandleSetClientUserInfo", Kinds: []string{"site"}},
			{Plugin: "handler-contract", Func: "mobius.HandleMoveFile", Kinds: []string{"site"}},
			{Plugin: "handler-contract", Func: "mobius.HandleDeleteFile", Kinds: []string{"site"}},
			// the upload-folder / drop-box rules look at the path's declared last item: the decoded path
			// must have exactly the declared number of items
			{Func: "hotline.(*FilePath).Write"}, {Func: "hotline.(*FilePathItem).Write"}},
		Decided: []string{
			"no effect without privilege: at every effect site of every registered handler the path condition implies the governing privilege (by target kind)",
			"every effect site is classified (governed or explicitly ungoverned) in spec/privileges.spec",
			"no spurious denial; clean denial (nothing changed or sent, the denial is what is returned); no success reply while an always-required privilege is missing",
			"Authorize(i) == bit i of the account's access bitmap (counted from the most significant bit of byte 0), false without account",
		},
		Undecided: []string{"target kinds other than regular file / directory (FIFOs, devices)", "per-recipient ReadChat filter and the AnyName rule are decided under C12 / C13"},
	}
	siteKinds := []string{"site", "post"}
	plans["C02"] = &Plan{
		Items: append([]Item{
			{Plugin: "sites", Func: "hotline.performHandshake", Kinds: siteKinds},
			{Plugin: "sites", Func: "hotline.(*Server).handleNewConnection", Kinds: siteKinds},
			{Plugin: "sites", Func: "hotline.(*Server).handleFileTransfer", Kinds: siteKinds},
			{Plugin: "sites", Func: "hotline.(*flattenedFileObject).ReadFrom", Kinds: siteKinds},
			{Plugin: "sites", Func: "hotline.receiveFile", Kinds: siteKinds},
			{Plugin: "sites", Func: "hotline.UploadFolderHandler", Kinds: siteKinds},
			{Plugin: "sites", Func: "hotline.DownloadFolderHandler", Kinds: siteKinds},
			{Plugin: "sites", Func: "hotline.DownloadFolderHandler$1", Kinds: []string{"site"}},
		}, fnItems(nil, "hotline.transactionScanner", "hotline.FieldScanner", "hotline.(*handshake).Write", "hotline.(*transfer).Write",
			// a decoded transaction owns its bytes (fields are copied out of the token)
			"hotline.(*Transaction).Write", "hotline.(*Field).Write")...),
		Decided: []string{
			"split functions (transactionScanner, FieldScanner): no token from an incomplete prefix, the token and advance depend only on the bytes, never on atEOF (functional contract, all inputs)",
			"every chunking copy (io.Copy / io.CopyN) in the connection functions feeds a record parser only from an in-memory reader; the connection is never read with a bare Read (call-site obligations on the real control flow)",
			"the 12-byte handshake and the 16-byte preamble are read with io.ReadFull of exactly that size and then parsed (handshake.Write / transfer.Write functional contracts)",
		},
		Undecided: []string{"bufio.Scanner and io.ReadFull / binary.Read themselves (assumed library contracts)", "that replies and state are a function of the token sequence only follows from the sequential handler semantics; timing is not decided"},
	}
	plans["C04"] = &Plan{
		Items: append([]Item{
			{Plugin: "sites", Func: "hotline.(*Server).handleNewConnection", Kinds: siteKinds},
			{Plugin: "gate", Func: "hotline.(*Server).handleNewConnection"},
			{Plugin: "sites", Func: "hotline.(*ClientConn).Authenticate", Kinds: siteKinds},
			{Plugin: "sites", Func: "hotline.performHandshake", Kinds: siteKinds},
			// who can log in is what the account table holds: its operations are part of the gate
			{Plugin: "sites", Func: "mobius.(*YAMLAccountManager).Create", Kinds: []string{"site", "post", "guarded"}},
			{Plugin: "sites", Func: "mobius.(*YAMLAccountManager).Update", Kinds: []string{"site", "post", "guarded"}},
			{Plugin: "sites", Func: "mobius.(*YAMLAccountManager).Delete", Kinds: []string{"site", "post", "guarded"}},
			{Plugin: "sites", Func: "mobius.(*YAMLAccountManager).Get", Kinds: []string{"site", "post", "guarded"}},
			{Plugin: "sites", Func: "hotline.HashAndSalt", Kinds: []string{"site"}},
		}, fnItems(nil, "hotline.(*handshake).Valid", "hotline.(*handshake).Write")...),
		Decided: []string{
			"the account table Authenticate consults is maintained exactly: Create adds, Update leaves exactly the new login (a renamed-away login is gone), Delete removes, all other entries unchanged (whole-map contracts of the YAML account manager)",
			"handleNewConnection: every request dispatch, every outbox send, every registry / statistics effect (also the deferred ones) is reachable only after performHandshake returned nil and Authenticate returned true; the client is registered only after Authenticate; the ban lookup follows the handshake and precedes Authenticate",
			"the login handed to Authenticate is the decoded login field, with the empty login replaced by guest and nothing else",
			"Authenticate returns true iff the account manager knows the login and bcrypt accepts the password against that account's stored hash",
			"handshake.Valid iff the first eight bytes are TRTP HOTL; handshake.Write accepts exactly 12 bytes",
		},
		Undecided: []string{"exact bytes of the error reply / ban notice on the failure paths (Transaction.Read not yet under contract)", "bcrypt itself"},
	}
	plans["C20"] = &Plan{
		Items: []Item{
			{Plugin: "crash", Func: "mobius.(*ThreadedNewsYAML).writeFile"},
			{Plugin: "crash", Func: "mobius.(*FlatNews).Write"},
			{Plugin: "crash", Func: "mobius.(*BanFile).Add"},
			{Plugin: "crash", Func: "mobius.(*YAMLAccountManager).Create"},
			{Plugin: "crash", Func: "mobius.(*YAMLAccountManager).Update"},
			{Plugin: "crash", Func: "mobius.(*YAMLAccountManager).Delete"},
			{Plugin: "crash", Func: "mobius.(*ThreadedNewsYAML).Load", Opts: "loader"},
			{Plugin: "crash", Func: "mobius.(*FlatNews).Reload", Opts: "loader"},
			{Plugin: "crash", Func: "mobius.(*BanFile).Load", Opts: "loader"},
			{Plugin: "sites", Func: "mobius.NewYAMLAccountManager", Kinds: []string{"site"}},
			{Plugin: "sites", Func: "mobius.writeFileAtomic", Kinds: []string{"site", "post"}},
			{Plugin: "sites", Func: "mobius.(*ThreadedNewsYAML).DeleteNewsItem", Kinds: []string{"post"}},
			{Plugin: "sites", Func: "mobius.(*ThreadedNewsYAML).DeleteArticle", Kinds: []string{"post"}},
			{Plugin: "sites", Func: "mobius.(*ThreadedNewsYAML).PostArticle", Kinds: []string{"post"}},
			{Plugin: "sites", Func: "mobius.(*ThreadedNewsYAML).CreateGrouping", Kinds: []string{"post"}},
		},
		Decided: []string{
			"for every persistent update (threaded news, message board, ban list, account create / update / delete): on every path of the real control flow a non-atomic write goes to a temporary name only, a temporary file replaces the live file only after its write returned nil, temporary files are truncated when opened, and success is reported only after the atomic commit step (rename into place / remove)",
			"the loaders (threaded news, message board, ban list) perform no mutating file-system call, so a leftover temporary file is never promoted on restart",
		},
		Undecided:   []string{"power loss (no fsync requirement)", "two concurrent writers sharing one temporary name (the writers hold the store mutex: C19/C03)", "the YAML library's decoding of a complete file"},
		Assumptions: []string{"crash model: a process kill preserves every completed system call; os.Rename and os.Remove are atomic; os.WriteFile may be interrupted after truncation or after any prefix", "names of live store files do not end in .tmp"},
	}
	var c07 []Item
	for _, f := range []string{"hotline.ReadPath", "hotline.NewFileWrapper", "hotline.(*fileWrapper).Move", "hotline.(*fileWrapper).Delete",
		"hotline.(*fileWrapper).InfoForkWriter", "hotline.(*fileWrapper).rsrcForkWriter", "hotline.(*fileWrapper).incFileWriter",
		"mobius.HandleNewFolder", "mobius.HandleSetFileInfo", "mobius.HandleDeleteFile", "mobius.HandleMoveFile", "mobius.HandleMakeAlias",
		"mobius.HandleGetFileInfo", "mobius.HandleGetFileNameList", "mobius.HandleDownloadFile", "mobius.HandleUploadFile",
		"mobius.HandleDownloadFolder", "mobius.HandleUploadFolder",
		"hotline.(*folderUpload).FormattedPath", "hotline.UploadFolderHandler", "hotline.UploadHandler", "hotline.DownloadHandler",
		"mobius.(*YAMLAccountManager).Create", "mobius.(*YAMLAccountManager).Update", "mobius.(*YAMLAccountManager).Delete"} {
		it := Item{Plugin: "paths", Func: f}
		if f == "hotline.UploadFolderHandler" {
			it.Kinds = []string{"site", "post"} // the writers' preconditions after three modular calls time out; their own sites are proved
		}
		c07 = append(c07, it)
	}
	for _, m := range []string{"Symlink", "Mkdir", "Stat", "Open", "RemoveAll", "Remove", "Create", "WriteFile", "Rename", "ReadFile", "OpenFile"} {
		c07 = append(c07, Item{Plugin: "sites", Func: "hotline.(*OSFileStore)." + m, Kinds: []string{"site"}})
	}
	c07 = append(c07, Item{Func: "hotline.(*ClientConn).FileRoot"})
	plans["C07"] = &Plan{Items: c07,
		Decided: []string{
			"ClientConn.FileRoot: the account's own root whenever one is configured, the shared root only otherwise -- a function of the configuration alone",

			"every OSFileStore method hands the operating system exactly the paths, flags and data it was given (Symlink: an alias stores the in-root absolute path the handler proved, never a rewritten one)",
			"ReadPath returns a path inside the file root for every path / name byte string (loop invariant: the accumulated sub-path is empty or a cleaned absolute path)",
			"every path a file handler hands to the file store, to os.* or to NewFileWrapper is inside the requester's file root; the root registered with a file transfer is the requester's root; fileWrapper.Move / Delete / the fork writers touch only paths inside the root given their invariant; folder-upload item paths are cleaned before use; upload / download handlers on the transfer connection stay inside the root they are given",
			"account files are created, renamed, written and removed inside the accounts directory only",
		},
		Undecided:   []string{"requests that address the file root itself (5 known findings)", "symbolic links already present under the root", "handleFileTransfer's own call of ReadPath (covered by ReadPath's contract, not by a site obligation)"},
		Assumptions: []string{"path algebra of spec/paths.spec (axioms about path.Join, filepath.Join/Dir/Base, Mac-Roman decoding); the configured file root is clean, ASCII and not /"},
	}
	amKinds := []string{"site", "post", "guarded"}
	plans["C15"] = &Plan{
		Items: []Item{
			{Plugin: "sites", Func: "mobius.(*YAMLAccountManager).Create", Kinds: amKinds},
			{Plugin: "sites", Func: "mobius.(*YAMLAccountManager).Update", Kinds: amKinds},
			{Plugin: "sites", Func: "mobius.(*YAMLAccountManager).Delete", Kinds: amKinds},
			{Plugin: "sites", Func: "mobius.(*YAMLAccountManager).Get", Kinds: amKinds},
			{Plugin: "sites", Func: "hotline.(*ClientConn).Authenticate", Kinds: siteKinds},
			{Plugin: "handler-contract", Func: "mobius.HandleDeleteUser", Kinds: []string{"site"}},
			{Plugin: "handler-contract", Func: "mobius.HandleListUsers", Kinds: []string{"site", "inv-step", "inv-init"}},
			{Plugin: "sites", Func: "mobius.writeFileAtomic", Kinds: []string{"site", "post"}},
			// the record shown to administrators is served whole whatever the reader's buffer size
			{Func: "hotline.(*Account).Read"}, {Func: "hotline.EncodeString"}, {Func: "hotline.NewField"},
			// the login that is checked is the login that was sent (no normalisation the account table does not share)
			{Plugin: "sites", Func: "hotline.(*Server).handleNewConnection", Kinds: []string{"site"}},
			{Plugin: "handler-contract", Func: "mobius.HandleUpdateUser", Kinds: []string{"site"}},
			{Plugin: "passwords", Func: "mobius.HandleSetUser"},
			{Plugin: "handler-contract", Func: "mobius.HandleSetUser", Kinds: []string{"site"}},
			{Plugin: "sites", Func: "mobius.NewYAMLAccountManager", Kinds: []string{"site", "inv-step", "inv-init"}},
			{Plugin: "yamltags", Opts: "hotline.Account"},
			{Plugin: "sites", Func: "hotline.HashAndSalt", Kinds: []string{"site"}},
			{Plugin: "sites", Func: "hotline.(*Field).DecodeObfuscatedString", Kinds: []string{"site"}}, {Func: "hotline.EncodeString"},
			{Plugin: "passwords", Func: "mobius.HandleUpdateUser"},
			{Func: "hotline.NewAccount"},
		},
		Decided: []string{
			"NewYAMLAccountManager: every file the directory scan returns is read, decoded and stored in the table (each iteration either fails the whole load or reaches the table update)",
			"HandleSetUser: the password field absent stores the hash of the empty password, the one-byte marker {0} computes no hash (hence stores nothing), any other value is hashed as given; the account is written back under its own login",
			"YAMLAccountManager.Create / Update / Delete / Get are proved against the whole account table: Create adds exactly the account under its login, Update leaves exactly the new login holding the given name, password hash and privileges and removes a renamed-away login, Delete removes exactly the login, every other entry is unchanged; the marshalled bytes handed to the file writer are those of the account the table then holds (Login already renamed); success is reported only if the file operation succeeded; the table is only touched under the mutex",
			"handlers: delete-user deletes the decoded login; batched update-user resolves the account of an entry from that entry's own fields; passwords are stored only as results of HashAndSalt",
			"Authenticate: true iff the login is in the table and bcrypt accepts the password for its hash (C04)",
		},
		Undecided: []string{"YAML round trip on restart (library)", "the password cases of the batched editor (HandleUpdateUser) are covered by the hash-taint obligations only, not case by case"},
	}
	plans["C03"] = &Plan{
		Items: append([]Item{{Plugin: "contain"},
			{Plugin: "sites", Func: "hotline.(*Server).handleNewConnection", Kinds: []string{"inv-step"}},
			{Plugin: "handler-contract", Func: "mobius.HandleDisconnectUser", Kinds: []string{"site"}},
			{Plugin: "handler-contract", Func: "mobius.HandleUpdateUser", Kinds: []string{"site"}},
			{Plugin: "handler-contract", Func: "mobius.HandleDeleteUser", Kinds: []string{"site"}},
		}, fnItems([]string{"guarded", "nopanic", "post"},
			"hotline.(*Server).rateLimiterFor", "hotline.(*User).Read",
			"hotline.(*MemChatManager).New", "hotline.(*MemChatManager).Join", "hotline.(*MemChatManager).Leave", "hotline.(*MemChatManager).Members",
			"hotline.(*MemChatManager).GetSubject", "hotline.(*MemChatManager).SetSubject",
			"hotline.(*MemFileTransferMgr).Add", "hotline.(*MemFileTransferMgr).Get", "hotline.(*MemFileTransferMgr).Delete",
			"hotline.(*ClientFileTransferMgr).Add", "hotline.(*ClientFileTransferMgr).Get", "hotline.(*ClientFileTransferMgr).Delete",
			"hotline.(*Stats).Increment", "hotline.(*Stats).Decrement", "hotline.(*Stats).Set", "hotline.(*Stats).Get",
			"hotline.(*MemClientMgr).Add", "hotline.(*MemClientMgr).Delete", "hotline.(*MemClientMgr).Get", "hotline.(*MemClientMgr).List",
			"hotline.(*Field).Write", "hotline.FieldScanner", "hotline.transactionScanner")...),
		Decided: []string{
			"the delayed-disconnect goroutines started by HandleDisconnectUser / HandleUpdateUser / HandleDeleteUser (which run outside any recover) are handed a non-nil client; in HandleDisconnectUser this rests on the real Authorize dereferencing its receiver before any branch, which is read off the code on every run",
			"both connection functions begin with the deferred recover (dontPanic) and have a recover exit: every panic raised while a connection's input is processed is recovered in that connection's goroutine",
			"the connection / transfer counters are incremented immediately before the deferred decrement of the same counter; a transfer looked up successfully is deleted by a deferred function; a registered client is deregistered by a deferred Disconnect",
			"every Lock of a mutex (in code that runs under a recover) is followed by the deferred Unlock before anything that can panic: a recovered panic never leaves a manager locked",
			"the shared maps (client registry, chats, transfers, per-client transfers, statistics, rate limiters) are only touched while their mutex is held",
			"the outbox dispatcher never writes to a connection itself; each transaction is sent from its own goroutine",
			"Field.Write / FieldScanner / transactionScanner never index out of range, for every input",
		},
		Undecided: []string{"wedge / timeliness (liveness), memory exhaustion, data races on plain fields", "panics inside callees are contained by the connection-level recover, they are not individually excluded"},
	}
	plans["C12"] = &Plan{
		Items: append([]Item{
			{Plugin: "handler-contract", Func: "mobius.HandleChatSend", Kinds: []string{"site"}},
			{Plugin: "handler-contract", Func: "mobius.HandleJoinChat", Kinds: []string{"site", "inv-step", "inv-init"}},
			{Plugin: "handler-contract", Func: "mobius.HandleLeaveChat", Kinds: []string{"site", "inv-step", "inv-init"}},
			{Plugin: "handler-contract", Func: "mobius.HandleSetChatSubject", Kinds: []string{"site", "inv-step", "inv-init"}},
			{Plugin: "handler-contract", Func: "mobius.HandleRejectChatInvite", Kinds: []string{"site", "inv-step", "inv-init"}},
			// who a chat line reaches is decided by client IDs: they must be unique among the connected
			{Func: "hotline.(*MemClientMgr).Add"}, {Func: "hotline.(*MemClientMgr).Get"}, {Func: "hotline.(*MemClientMgr).Delete"}, {Func: "hotline.(*MemClientMgr).List"},
		}, fnItems([]string{"post", "guarded"}, "hotline.(*MemChatManager).Join", "hotline.(*MemChatManager).Leave", "hotline.(*MemChatManager).New")...),
		Decided: []string{
			"HandleChatSend: every chat line handed to a recipient (field 101 of a chat message) is at most 8192 bytes long, in the plain and in the emote form; a public line is addressed only to clients whose account holds read-chat; every transaction it produces is a chat message (106)",
			"private-chat lines, join / leave notices and subject changes are built one per element of ChatManager.Members(chat named by the request), each addressed to that element and carrying that chat's ID; the join notice goes to the members before the join, the leave notice to the members after the leaver was removed",
			"MemChatManager.Join adds exactly the joining client to the addressed chat; Leave removes exactly the leaving client and never the chat itself; New creates a chat whose only member is its creator; all other chats and members are unchanged (whole-map frames); the chat table is only touched under its mutex",
		},
		Undecided: []string{"exactly-once delivery to every member (Members / List with range + sort are not under functional contract)", "text format strings; invite / decline handlers; delivery order; that ranging over the member slice visits every element exactly once is Go's range semantics, not an obligation"},
	}
	plans["C18"] = &Plan{
		Items: append([]Item{
			{Plugin: "sites", Func: "mobius.(*ThreadedNewsYAML).PostArticle", Kinds: []string{"site", "post", "guarded"}},
			{Plugin: "sites", Func: "mobius.(*ThreadedNewsYAML).DeleteArticle", Kinds: []string{"site", "post"}},
			{Plugin: "sites", Func: "mobius.(*ThreadedNewsYAML).CreateGrouping", Kinds: []string{"site", "post"}},
			{Plugin: "yamltags", Opts: "hotline.ThreadedNews hotline.NewsCategoryListData15 hotline.NewsArtData"},
			{Func: "hotline.(*Field).DecodeNewsPath"},
			{Plugin: "sites", Func: "mobius.(*ThreadedNewsYAML).Load", Kinds: []string{"site"}},
			{Plugin: "handler-contract", Func: "mobius.HandlePostNewsArt", Kinds: []string{"site"}},
			{Plugin: "handler-contract", Func: "mobius.HandleDelNewsArt", Kinds: []string{"site"}},
			{Plugin: "handler-contract", Func: "mobius.HandleGetNewsArtData", Kinds: []string{"site"}},
			{Plugin: "sites", Func: "mobius.(*ThreadedNewsYAML).DeleteNewsItem", Kinds: []string{"site", "guarded", "inv-init"}},
			{Plugin: "sites", Func: "mobius.(*ThreadedNewsYAML).GetArticle", Kinds: []string{"guarded", "inv-init"}},
			{Plugin: "sites", Func: "mobius.(*ThreadedNewsYAML).ListArticles", Kinds: []string{"site", "guarded", "inv-init"}},
			{Plugin: "sites", Func: "mobius.(*ThreadedNewsYAML).getCatByPath", Kinds: []string{"inv-init", "inv-step", "post"}},
			{Plugin: "sites", Func: "hotline.(*NewsCategoryListData15).GetNewsArtListData", Kinds: []string{"site"}},
		}, fnItems(nil, "hotline.(*NewsArtList).Read", "hotline.(*NewsArtListData).Read", "hotline.(*NewsCategoryListData15).Read")...),
		Decided: []string{
			"the YAML keys of the persisted news records (ThreadedNews, NewsCategoryListData15, NewsArtData) are the ones in spec/yaml_tags.spec: none renamed, dropped or made omitempty (an empty category written without its maps is reloaded with nil maps)",
			"CreateGrouping never replaces an existing category or bundle: with the name taken at that path it fails and the item is untouched, with the name free the new item has the requested name and type; the tree is read and written under the mutex and saved only after an insertion",
			"PostArticle: the previous-article link is at least every article ID collected from the category (sort.Ints contract) and the new ID is that maximum + 1 (it is what the old newest article's next link receives); the article is stored under the new ID with the requested parent; no other entry of the category's article map changes; the result is the result of writing the news file; the tree is only touched under the mutex",
			"DeleteArticle removes exactly the addressed article (whole-map frame) and returns the result of writing the file",
			"the article list is built by draining every entry with io.ReadAll through its proved cursor contract (NewsArtList.Read), never by a single bare Read; list encoders NewsArtList / NewsArtListData / NewsCategoryListData15 satisfy their wire layouts (C01)",
		},
		Undecided: []string{"that the IDs collected by ranging over the map are all IDs present (Go's range semantics; the freshness claim is relative to that)", "CreateGrouping / DeleteNewsItem / GetCategories / ListArticles, first-child maintenance, YAML reload"},
	}
	plans["C19"] = &Plan{
		Items: []Item{
			{Plugin: "sites", Func: "mobius.(*FlatNews).Write", Kinds: []string{"site", "post", "guarded"}},
			{Func: "mobius.(*FlatNews).Read"}, {Func: "mobius.(*FlatNews).Seek"},
			{Func: "mobius.(*Agreement).Read"}, {Func: "mobius.(*Agreement).Seek"},
			{Plugin: "handler-contract", Func: "mobius.HandleTranOldPostNews", Kinds: []string{"site"}},
			{Plugin: "handler-contract", Func: "mobius.HandleGetMsgs", Kinds: []string{"site"}},
			{Plugin: "sites", Func: "mobius.(*FlatNews).Reload", Kinds: []string{"site", "post"}},
			{Plugin: "sites", Func: "mobius.(*Agreement).Reload", Kinds: []string{"site", "post"}},
			{Plugin: "sites", Func: "mobius.NewAgreement", Kinds: []string{"site", "post"}},
		},
		Decided: []string{
			"loading / reloading the board and the agreement stores exactly the file's bytes with the two line-break replacements applied (byte-wise strings.ReplaceAll; no re-encoding), read from the store's own path under its mutex",
			"FlatNews.Write: the board becomes post ++ old board, exactly that is written to the temporary file and renamed into place, all under the store's mutex (concurrent posts are serialised, none is lost), and len(p) is reported only after the rename succeeded",
			"FlatNews.Read / Agreement.Read satisfy the cursor contract over the stored text and touch cursor and data under the mutex only",
			"HandleTranOldPostNews replies and announces only after the board accepted the post; HandleGetMsgs returns exactly what io.ReadAll read from the board object itself (no wrapper, no truncation)",
		},
		Undecided: []string{"complete text under concurrent readers: 3 known findings (shared cursor S13)", "the post format string and the agreement send in handleNewConnection"},
	}
	plans["C17"] = &Plan{
		Items: []Item{
			{Plugin: "sites", Func: "hotline.(*Server).handleNewConnection", Kinds: siteKinds},
			{Plugin: "handler-contract", Func: "mobius.HandleDisconnectUser", Kinds: []string{"site"}},
			{Plugin: "sites", Func: "hotline.(*ClientConn).Disconnect", Kinds: []string{"site", "post", "inv-step", "inv-init"}},
			{Plugin: "sites", Func: "hotline.(*ClientConn).NotifyOthers", Kinds: []string{"site", "inv-step", "inv-init"}},
			{Plugin: "sites", Func: "mobius.(*BanFile).Add", Kinds: []string{"site", "post", "guarded"}},
			{Func: "mobius.(*BanFile).IsBanned"},
		},
		Decided: []string{
			"Disconnect removes the client from the registry first, notifies every remaining client once, and closes the connection on every path",
			"handleNewConnection: the ban lookup follows the handshake; Authenticate (and everything after it) is reachable only if the address is not banned, or its temporary ban has an expiry that time.Now() is not before",
			"HandleDisconnectUser: option 1 bans the target's own address (strings.Split of the target's RemoteAddr) until now + exactly 30 minutes, option 2 without expiry; bans and the delayed Disconnect only for targets without cannot-be-disconnected (C06)",
			"BanFile.IsBanned answers exactly from the map; BanFile.Add records the entry, leaves every other address unchanged, writes the marshalled list and returns nil only if the write succeeded; the map is only touched under the mutex",
		},
		Undecided: []string{"restart = Load of the YAML file (library round trip assumed)", "wall-clock behaviour of time.Now"},
	}
	plans["C09"] = &Plan{
		Items: []Item{
			{Plugin: "sites", Func: "hotline.UploadHandler", Kinds: siteKinds},
			{Plugin: "sites", Func: "hotline.receiveFile", Kinds: siteKinds},
			{Plugin: "sites", Func: "hotline.(*flattenedFileObject).ReadFrom", Kinds: []string{"site"}},
			// the files of a folder upload are published by the same rule: a name becomes final only
			// after its item was received completely
			{Plugin: "sites", Func: "hotline.UploadFolderHandler", Kinds: []string{"site"}},
			{Plugin: "handler-contract", Func: "mobius.HandleUploadFile", Kinds: []string{"site"}},
			{Plugin: "sites", Func: "hotline.(*OSFileStore).OpenFile", Kinds: []string{"site"}},
			{Plugin: "sites", Func: "hotline.(*OSFileStore).Rename", Kinds: []string{"site"}},
			{Func: "hotline.(*FileResumeData).BinaryMarshal"}, {Func: "hotline.NewFileResumeData"}, {Func: "hotline.NewForkInfoList"},
		},
		Decided: []string{
			"UploadHandler never removes a file (the partial file of an interrupted upload stays for the resume)",
			"HandleUploadFile: a transfer is registered only when the final name does not exist; for a resume request the offset reported (resume data field 203) is the size of <final name>.incomplete, taken from a successful Stat of exactly that path",
			"UploadHandler: the partial file is opened with O_APPEND and without O_TRUNC; it is opened only when the final name does not exist; the rename to the final name is reached only on paths where receiveFile returned nil and the final name did not exist",
			"receiveFile: returns nil only if exactly the declared data-fork size was written to the target (io.CopyN contract)",
			"the resume data sent back (field 203): NewForkInfoList / NewFileResumeData build \"RFLT\", version 1, one entry per list element with fork type \"DATA\" and the given offset; FileResumeData.BinaryMarshal emits magic, version, count at bytes 0..6 and 40..42 and entry j's fork type and offset at 42+16j (any number of entries)",
			"flattenedFileObject.ReadFrom: the information fork read from the connection is exactly the DataSize bytes its fork header declares, read once and parsed from that buffer; HandleUploadFile itself removes, renames, truncates or creates nothing",
		},
		Undecided: []string{"content equality upload = later download is the composition with C08 (not a single pre/post pair)", "the reserved bytes of the resume data's wire form (the magic, version, count, fork type and offset are under FileResumeData.BinaryMarshal's contract)"},
	}
	plans["C08"] = &Plan{
		Items: append([]Item{
			{Plugin: "streams", Func: "hotline.DownloadHandler", Kinds: siteKinds, Depth: 2, Env: []string{"hotline.NewFileWrapper"}},
			{Plugin: "handler-contract", Func: "mobius.HandleDownloadFile", Kinds: []string{"site"}},
			{Plugin: "sites", Func: "hotline.(*OSFileStore).Stat", Kinds: []string{"site"}},
			{Plugin: "sites", Func: "hotline.(*OSFileStore).Open", Kinds: []string{"site"}},
		}, fnItems(nil, "hotline.(*fileWrapper).flattenedFileObject", "hotline.NewFileWrapper",
			"hotline.(*FlatFileInformationFork).Write", "hotline.(*FlatFileInformationFork).Size",
			"hotline.(*flattenedFileObject).TransferSize", "hotline.(*flattenedFileObject).Read", "hotline.(*FlatFileInformationFork).Read",
			"hotline.(*FlatFileInformationFork).DataSize", "hotline.(*FlatFileInformationFork).ReadNameSize")...),
		Decided: []string{
			"DownloadHandler, as a sequence of stream operations: the header is written first and only when no preview option is set; the data fork source stands at exactly the resume offset when its copy starts and at its end when the copy is over; the resource fork header follows only when not resuming; the resource fork is copied last from its start; on success the number of write operations is exactly header? + data + rsrc-header? + rsrc; the handler fails only if an environment operation failed or the offset lies beyond the file",
			"flattenedFileObject: the data size field is (size on disk - resume offset) mod 2^32 in both Stat branches; TransferSize(k) = data + resource + header length - k (mod 2^32), computed on a copy (the header cursor is not consumed)",
			"header self-consistency: the info fork size and name length fields of the header are computed from the info fork that follows (cursor contract of flattenedFileObject.Read / FlatFileInformationFork.Read)",
			"NewFileWrapper / fileWrapper.flattenedFileObject, from their bodies: the wrapper and its header object are fresh, the header cursor is 0, the fixed parts are \"FILP\", version 1, 16 reserved zero bytes and \"DATA\", and the information fork -- parsed from the stored side file by one FlatFileInformationFork.Write, or synthesised from the file's own name with an empty comment -- satisfies the invariant the header encoder needs (name and comment fit their 16-bit prefixes, comment size field = comment length)",
			"HandleDownloadFile: the only error reply is the privilege denial; field 108 is TransferSize(0) of the wrapper (bare data size for a preview), field 207 the wrapper's data size",
		},
		Undecided:   []string{"content of the data fork stream = bytes on disk (os.File semantics, assumed)", "files of 4 GiB and more (32-bit size fields wrap)"},
		Assumptions: []string{"the bytes ReadFile returns for a stored .info_<name> side file are a well-formed info fork in a buffer of their own (stated as an `after call ... assume` clause in flattenedFileObject's contract; the server writes that file through the same codec)",
			"the last element of an addressed path is at most 65535 bytes long (`after call path/filepath.Base assume` in NewFileWrapper's contract)"},
	}
	plans["C10"] = &Plan{
		Items: append([]Item{
			{Plugin: "streams", Func: "hotline.DownloadFolderHandler$1", Kinds: siteKinds, Depth: 2,
				Env: []string{"hotline.NewFileWrapper", "io.ReadFull", "(*hotline.FileResumeData).UnmarshalBinary", "(*hotline.fileWrapper).rsrcForkFile"}},
			{Plugin: "sites", Func: "hotline.CalcItemCount", Kinds: []string{"site"}},
			{Plugin: "sites", Func: "hotline.UploadFolderHandler", Kinds: []string{"site"}},
			{Plugin: "handler-contract", Func: "mobius.HandleDownloadFolder", Kinds: []string{"site"}},
			{Plugin: "handler-contract", Func: "mobius.HandleUploadFolder", Kinds: []string{"site"}},
			{Plugin: "sites", Func: "hotline.receiveFile", Kinds: siteKinds},
			{Plugin: "sites", Func: "hotline.(*folderUpload).FormattedPath", Kinds: []string{"site"}},
		}, fnItems(nil, "hotline.CalcItemCount$1", "hotline.(*FileHeader).Read", "hotline.NewFileHeader", "hotline.EncodeFilePath", "hotline.(*FileResumeData).UnmarshalBinary", "hotline.(*FileTransfer).ItemCount",
			// the per-file size prefix of a folder download counts the header that is then sent
			"hotline.(*flattenedFileObject).TransferSize", "hotline.(*flattenedFileObject).Read", "hotline.(*FlatFileInformationFork).Read",
			"hotline.(*fileWrapper).flattenedFileObject", "hotline.NewFileWrapper")...),
		Decided: []string{
			"TransferSize(k), the size prefix of every file of a folder download: data + resource + the length of the header as flattenedFileObject.Read emits it (info fork with name and comment) - k, mod 2^32, computed on a copy",
			"both walk callbacks: an entry is counted / gets an item header exactly when the walk reported no error for it and its name does not start with a dot (the download additionally skips the first visited entry, the count subtracts one); neither callback prunes the walk or fails unless the walk or the environment did",
			"folder download, per entry: header first (FileHeader cursor contract), then on a send or resume choice the size prefix TransferSize(offset), the flattened header, the data fork positioned at the offset and copied to its end; a next-file choice sends nothing more",
			"folder upload: partial files are opened with O_APPEND and without O_TRUNC; a name becomes final only after receiveFile returned nil; the action sent follows what is on disk (complete: next, partial: resume, absent: send); the resume offset sent is the partial file's size; folders are created only when missing",
			"HandleDownloadFolder: refusal only on the privilege; fields 220 and 108 are CalcItemCount / CalcTotalSize of the addressed folder",
		},
		Undecided: []string{"filepath.Walk's order and that it visits every entry once (library)", "equality of the uploaded and re-downloaded tree (composition over histories)", "the resource fork of a folder item is sent only when an info fork file exists (ForkCount == 3) although the size prefix always includes it: not decided here"},
	}
	plans["C11"] = &Plan{
		Items: []Item{
			{Plugin: "paths", Func: "hotline.(*fileWrapper).Move", Kinds: siteKinds},
			{Plugin: "paths", Func: "hotline.(*fileWrapper).Delete", Kinds: siteKinds},
			{Plugin: "paths", Func: "hotline.NewFileWrapper", Kinds: []string{"site"}},
			{Plugin: "sites", Func: "hotline.GetFileNameList", Kinds: []string{"site", "pre-at-call", "inv-init", "inv-step"}},
			{Plugin: "sites", Func: "hotline.(*fileWrapper).TotalSize", Kinds: []string{"site"}},
			{Plugin: "paths", Func: "mobius.HandleNewFolder", Kinds: []string{"site"}},
			{Plugin: "paths", Func: "mobius.HandleSetFileInfo", Kinds: []string{"site", "post"}},
			{Plugin: "handler-contract", Func: "mobius.HandleMoveFile", Kinds: []string{"site"}},
			{Func: "hotline.(*FileNameWithInfo).Read"}, {Func: "hotline.ignoreFile"}, {Func: "hotline.fileTypeFromFilename"},
		},
		Decided: []string{
			"HandleSetFileInfo: a request that carries a comment field -- also an empty one, which clears the comment -- and is answered with success has set that comment on the info fork and written the fork back",
			"fileWrapper.Move renames the data fork and then each side file (.incomplete, .rsrc_, .info_) from the wrapper's own path to the name derived from the wrapper's current name in the new directory, and reports success only after all four; Delete removes the same four paths; NewFileWrapper derives the three side-file paths from the addressed path",
			"GetFileNameList: an entry is listed only if the ignore filter (called with the entry's own name and the configured list) passes it; the listed name is the entry's name with the partial-upload suffix removed, Mac-Roman encoded; the name length field equals the encoded length (cursor precondition at the drain site); folder item counts use the same ignore list; the list field is field 200 holding exactly the drained entry",
			"TotalSize of a file without resource fork is its size on disk minus the wrapper's offset (mod 2^32)",
			"HandleNewFolder creates the folder only when os.IsNotExist holds for the very path it creates; HandleSetFileInfo renames a file by moving the wrapper, carrying the base name of the resolved new path, within the file's own folder",
		},
		Undecided:   []string{"agreement of list / get-info / download reply on type and creator codes (three call chains over file_types tables)", "sequences of operations against a reference namespace (whole-history)", "that every non-ignored entry is listed (the loop's skip conditions are not under an invariant)", "make-alias"},
		Assumptions: []string{"a directory entry name is at most 255 bytes (NAME_MAX) and Mac-Roman encoding does not lengthen it (assumed contracts of os.DirEntry.Name and encoding.Encoder.String)"},
	}
	plans["C14"] = &Plan{
		Items: append([]Item{
			{Plugin: "sites", Func: "hotline.(*Server).sendTransaction", Kinds: siteKinds},
			{Plugin: "sites", Func: "hotline.sendBanMessage", Kinds: siteKinds},
			// every queued transaction is sent once, by a goroutine that owns it
			{Plugin: "contain", Opts: "dispatcher"},
			// a reply is built on the requester's own connection, for the request being handled (the 38 handlers that reply; four send no reply, HandleSetFileInfo is left out: two of its refusal branches are unreachable in the handler model without the path algebra)
			{Plugin: "handler-contract", Func: "mobius.HandleChatSend", Kinds: []string{"site"}},
			{Plugin: "handler-contract", Func: "mobius.HandleDelNewsArt", Kinds: []string{"site"}},
			{Plugin: "handler-contract", Func: "mobius.HandleDelNewsItem", Kinds: []string{"site"}},
			{Plugin: "handler-contract", Func: "mobius.HandleDeleteFile", Kinds: []string{"site"}},
			{Plugin: "handler-contract", Func: "mobius.HandleDeleteUser", Kinds: []string{"site"}},
			{Plugin: "handler-contract", Func: "mobius.HandleDisconnectUser", Kinds: []string{"site"}},
			{Plugin: "handler-contract", Func: "mobius.HandleDownloadBanner", Kinds: []string{"site"}},
			{Plugin: "handler-contract", Func: "mobius.HandleDownloadFile", Kinds: []string{"site"}},
			{Plugin: "handler-contract", Func: "mobius.HandleDownloadFolder", Kinds: []string{"site"}},
			{Plugin: "handler-contract", Func: "mobius.HandleGetClientInfoText", Kinds: []string{"site"}},
			{Plugin: "handler-contract", Func: "mobius.HandleGetFileInfo", Kinds: []string{"site"}},
			{Plugin: "handler-contract", Func: "mobius.HandleGetFileNameList", Kinds: []string{"site"}},
			{Plugin: "handler-contract", Func: "mobius.HandleGetMsgs", Kinds: []string{"site"}},
			{Plugin: "handler-contract", Func: "mobius.HandleGetNewsArtData", Kinds: []string{"site"}},
			{Plugin: "handler-contract", Func: "mobius.HandleGetNewsArtNameList", Kinds: []string{"site"}},
			{Plugin: "handler-contract", Func: "mobius.HandleGetNewsCatNameList", Kinds: []string{"site"}},
			{Plugin: "handler-contract", Func: "mobius.HandleGetUser", Kinds: []string{"site"}},
			{Plugin: "handler-contract", Func: "mobius.HandleGetUserNameList", Kinds: []string{"site"}},
			{Plugin: "handler-contract", Func: "mobius.HandleInviteNewChat", Kinds: []string{"site"}},
			{Plugin: "handler-contract", Func: "mobius.HandleInviteToChat", Kinds: []string{"site"}},
			{Plugin: "handler-contract", Func: "mobius.HandleJoinChat", Kinds: []string{"site"}},
			{Plugin: "handler-contract", Func: "mobius.HandleKeepAlive", Kinds: []string{"site"}},
			{Plugin: "handler-contract", Func: "mobius.HandleListUsers", Kinds: []string{"site"}},
			{Plugin: "handler-contract", Func: "mobius.HandleMakeAlias", Kinds: []string{"site"}},
			{Plugin: "handler-contract", Func: "mobius.HandleMoveFile", Kinds: []string{"site"}},
			{Plugin: "handler-contract", Func: "mobius.HandleNewFolder", Kinds: []string{"site"}},
			{Plugin: "handler-contract", Func: "mobius.HandleNewNewsCat", Kinds: []string{"site"}},
			{Plugin: "handler-contract", Func: "mobius.HandleNewNewsFldr", Kinds: []string{"site"}},
			{Plugin: "handler-contract", Func: "mobius.HandleNewUser", Kinds: []string{"site"}},
			{Plugin: "handler-contract", Func: "mobius.HandlePostNewsArt", Kinds: []string{"site"}},
			{Plugin: "handler-contract", Func: "mobius.HandleSendInstantMsg", Kinds: []string{"site"}},
			{Plugin: "handler-contract", Func: "mobius.HandleSetUser", Kinds: []string{"site"}},
			{Plugin: "handler-contract", Func: "mobius.HandleTranAgreed", Kinds: []string{"site"}},
			{Plugin: "handler-contract", Func: "mobius.HandleTranOldPostNews", Kinds: []string{"site"}},
			{Plugin: "handler-contract", Func: "mobius.HandleUpdateUser", Kinds: []string{"site"}},
			{Plugin: "handler-contract", Func: "mobius.HandleUploadFile", Kinds: []string{"site"}},
			{Plugin: "handler-contract", Func: "mobius.HandleUploadFolder", Kinds: []string{"site"}},
			{Plugin: "handler-contract", Func: "mobius.HandleUserBroadcast", Kinds: []string{"site"}},
		}, fnItems(nil, "hotline.(*ClientConn).NewReply", "hotline.(*ClientConn).NewErrReply", "hotline.NewTransaction", "hotline.(*Transaction).Read", "hotline.(*Transaction).Size", "hotline.NewField", "hotline.(*Field).Read", "hotline.(*MemClientMgr).Add", "hotline.(*MemClientMgr).Get")...),
		Decided: []string{
			"Transaction.Read serialises without consuming: fields and their cursors are untouched, so a transaction that is broadcast, or read in several pieces, is whole for every recipient (frame obligations of Read and of its field loop)",
			"sendTransaction sets no write deadline on the connection (a timed-out partial Write would leave half a frame on a connection that stays in use)",
			"sendTransaction hands a transaction to the connection with at most one Write and never through a chunking copy (so concurrently sent transactions cannot interleave inside one another)",
			"NewReply / NewErrReply: reply flag set, the request's ID and the requester's client ID copied, error code 1 on error replies, the error field well-formed",
			"NewField / Field.Read: the length prefix equals the data length; registry routing: a client ID addresses the client registered under it and IDs of live clients are distinct (MemClientMgr.Add/Get)",
		},
		Undecided: []string{"the bytes of Transaction.Read after the 22-byte header (field concatenation) are not under a functional contract", "delivery order between goroutines; at most one reply per request per handler"},
	}
	plans["C13"] = &Plan{
		Items: append(append(fnItems(nil, "hotline.(*UserFlags).IsSet", "hotline.(*User).Read", "hotline.(*MemClientMgr).Add", "hotline.(*MemClientMgr).Delete", "hotline.(*MemClientMgr).Get", "hotline.(*MemClientMgr).List"),
			Item{Plugin: "handler-contract", Func: "mobius.HandleSetClientUserInfo", Kinds: []string{"site"}},
			Item{Plugin: "handler-contract", Func: "mobius.HandleTranAgreed", Kinds: []string{"site"}},
			Item{Plugin: "handler-contract", Func: "mobius.HandleSendInstantMsg", Kinds: []string{"site"}},
			Item{Plugin: "handler-contract", Func: "mobius.HandleSetUser", Kinds: []string{"site", "inv-step", "inv-init"}},
			Item{Plugin: "sites", Func: "hotline.(*ClientConn).NotifyOthers", Kinds: []string{"site", "inv-step", "inv-init"}},
			Item{Plugin: "sites", Func: "hotline.(*ClientConn).Disconnect", Kinds: []string{"site", "post", "inv-step", "inv-init"}},
			Item{Plugin: "sites", Func: "hotline.(*ClientConn).SendAll", Kinds: []string{"site", "inv-step", "inv-init"}},
			Item{Plugin: "sites", Func: "hotline.(*Server).SendAll", Kinds: []string{"site", "inv-step", "inv-init"}},
			Item{Plugin: "sites", Func: "hotline.(*ClientConn).handleTransaction", Kinds: []string{"site", "inv-step", "inv-init", "guarded"}},
			// only a connection that logged in (and was given an ID) ever unregisters an ID or is
			// announced as having left
			Item{Plugin: "gate", Func: "hotline.(*Server).handleNewConnection"}),
			Item{Func: "hotline.(*UserFlags).Set", ThoroughOnly: true}),
		Decided: []string{
			"handleNewConnection: Disconnect -- which removes the connection's ID from the registry and tells everyone that user left -- is registered and reached only after a successful login (a refused connection still carries the zero ID, which a live user can hold after the counter wrapped)",
			"Disconnect removes exactly the leaving client from the registry before the user-left notices are built, sends one notice (type 302, field 103 = its ID) per remaining client, and closes the connection on every path; SendAll (both) builds one transaction of the given type per registered client, addressed to it, and sends each; handleTransaction forwards every transaction the handler returns and resets the idle timer under the mutex",
			"NotifyOthers (user joined / changed / left notices): every entry of the client list whose ID differs from the sender's gets one copy, and no one else does (per-iteration reach obligation)",
			"HandleSetClientUserInfo: with the options field present the automatic reply is cleared when its bit is clear and set to the request's text when it is set",
			"MemClientMgr.Add: the ID assigned is not held by any registered client, for every value of the 32-bit counter (also across the 16-bit wrap); the new client is registered under it; every other entry is unchanged",
			"Delete removes exactly the addressed entry; Get returns the client registered under the ID or nil",
			"the registry map and the ID counter are only touched while the manager's mutex is held (ID computation and insert are one critical section)",
		},
		Undecided: []string{"convergence of a client-side fold of notifications with the fetched list (whole-history, delivery order)", "refuse-messages / auto-reply clauses of HandleSendInstantMsg (not yet under contract)"},
	}
	plans["C16"] = &Plan{
		Items: []Item{{Plugin: "accesstables"}, {Func: "hotline.(*AccessBitmap).IsSet"}, {Func: "hotline.(*AccessBitmap).Set"}, {Func: "hotline.(*ClientConn).Authorize"},
			{Plugin: "sites", Func: "mobius.NewYAMLAccountManager", Kinds: []string{"site", "inv-step", "inv-init"}},
			{Func: "hotline.NewAccount"},
			// an edit stores (in the table and, marshalled, on disk) exactly the bitmap it was given
			{Func: "mobius.(*YAMLAccountManager).Update"}, {Func: "mobius.(*YAMLAccountManager).Create"},
			{Plugin: "sites", Func: "mobius.(*YAMLAccountManager).List", Kinds: []string{"inv-init", "guarded"}},
			{Plugin: "handler-contract", Func: "mobius.HandleSetUser", Kinds: []string{"site"}},
			{Plugin: "handler-contract", Func: "mobius.HandleUpdateUser", Kinds: []string{"site"}}},
		Decided: []string{
			"YAMLAccountManager.Update / Create: on success the table entry under the (new) login carries the given access bitmap unchanged -- all 64 bits -- and it is that account which is marshalled and written atomically",
			"the account loader (including the migration of legacy-format files) never sets a privilege bit itself: what a file grants is what UnmarshalYAML decoded",
			"IsSet(i) is bit i counted from the most significant bit of byte 0; Set(i) sets exactly that bit (all 64 indices, all byte values)",
			"MarshalYAML: each of the 40 named fields equals the bit of its privilege number (spec/access_names.spec); no field without row, no row without field",
			"UnmarshalYAML named form: bit j is set iff j is a defined privilege whose name maps to true; legacy form: byte i of the bitmap is element i of the array",
			"Authorize decides by the same bit (proved against IsSet's contract)",
		},
		Undecided: []string{"YAML library round trip (assumed)", "save/load lemma is the composition of the two table results (argued in DESIGN.md, propositional)"},
	}
	plans["C06"] = &Plan{
		Items: []Item{
			{Plugin: "handler-contract", Func: "mobius.HandleNewUser", Kinds: []string{"site", "inv-init", "inv-step"}},
			{Plugin: "handler-contract", Func: "mobius.HandleUpdateUser", Kinds: []string{"site", "inv-init", "inv-step"}},
			{Plugin: "handler-contract", Func: "mobius.HandleDisconnectUser", Kinds: []string{"site"}},
			{Func: "hotline.NewAccount"}, {Func: "hotline.(*AccessBitmap).IsSet"}, {Func: "hotline.(*ClientConn).Authorize"},
		},
		Decided: []string{
			"at both AccountManager.Create sites (350 NewUser, 349 UpdateUser create branch): every bit of the created account's bitmap is held by the creator, for all 2^64 x 2^64 bitmap pairs (64-iteration subset loop with inductive invariant)",
			"HandleDisconnectUser: BanList.Add (both options) and the delayed Disconnect are reached only if the target lacks cannot-be-disconnected (bit 23)",
		},
		Undecided: []string{"editing an EXISTING account's privileges (HandleSetUser, the update branch of HandleUpdateUser) is outside the property's statement (it speaks of created accounts) and is not constrained", "that the delayed Disconnect goroutine targets the client looked up (closure body not under contract)"},
	}
	plans["C01"] = &Plan{
		Items: append([]Item{
			// the file-list record is built in place: its length prefix must be the length of the name
			// bytes that follow (precondition of the FileNameWithInfo cursor at the drain site)
			{Plugin: "sites", Func: "hotline.GetFileNameList", Kinds: []string{"site", "pre-at-call", "inv-init", "inv-step"}},
			// the flattened-file header decoder hands the information fork to its record parser in one piece
			{Plugin: "sites", Func: "hotline.(*flattenedFileObject).ReadFrom", Kinds: []string{"site"}},
		}, fnItems(nil,
			"hotline.(*Transaction).Read", "hotline.(*Transaction).Size", "hotline.(*Transaction).Write", "hotline.(*FilePath).Write",
			"hotline.(*Field).Read", "hotline.NewField", "hotline.(*Field).Write", "hotline.FieldScanner",
			"hotline.transactionScanner", "hotline.(*Field).DecodeInt", "hotline.EncodeString",
			"hotline.(*User).Read", "hotline.(*User).Write", "hotline.(*Account).Read",
			"hotline.(*FileNameWithInfo).Read", "hotline.(*FileNameWithInfo).Write",
			"hotline.(*FlatFileInformationFork).Read", "hotline.(*FlatFileInformationFork).DataSize", "hotline.(*FlatFileInformationFork).Size",
			"hotline.(*FlatFileInformationFork).ReadNameSize", "hotline.(*FlatFileInformationFork).SetComment",
			"hotline.(*fileWrapper).flattenedFileObject", "hotline.NewFileWrapper", "hotline.(*ServerRecord).Write", "hotline.NewTime",
			"hotline.(*FileResumeData).BinaryMarshal", "hotline.NewFileResumeData", "hotline.NewForkInfoList", "hotline.(*Field).DecodeNewsPath", "hotline.EncodeFilePath",
			"hotline.(*FlatFileInformationFork).UnmarshalBinary", "hotline.(*FlatFileInformationFork).Write",
			"hotline.(*flattenedFileObject).Read", "hotline.(*FileHeader).Read",
			"hotline.(*NewsArtList).Read", "hotline.(*NewsCategoryListData15).Read", "hotline.(*NewsArtListData).Read", "hotline.(*TrackerRegistration).Read",
			"hotline.(*handshake).Write", "hotline.(*handshake).Valid", "hotline.(*transfer).Write",
			"hotline.(*FilePathItem).Write", "hotline.fileItemScanner", "hotline.NewForkInfoList",
		)...),
		Decided: []string{
			"encoder Read methods: every call returns the next bytes of the wire layout (cursor contract), for every buffer size",
			"decoders: fields equal the corresponding sub-ranges of the input",
			"Transaction.Read serialises without consuming: it writes only its own cursor and the caller's buffer (the fields and their cursors are untouched, so a transaction can be read again, measured, or sent to several clients); the 22-byte header carries flags, type, ID, error code, the size twice and the field count; every field is drained through Field.Read whose precondition (length prefix = data length) is checked at the drain site",
		},
		Undecided: []string{"the bytes of Transaction.Read after the 22-byte header equal the concatenation of the fields' wire forms, and the size fields equal its length (needs an iterated concatenation over the field slice; only the header, the frame and the per-field drain preconditions are proved)", "Account.Read / FileResumeData marshalling / EncodeFilePath content / GetNewsArtListData content are not under a functional contract", "the protocol document itself is the oracle for the layouts: a layout transcribed wrongly would be proved faithfully"},
	}
}
