package main

// Plug-in "crash" (C20): crash atomicity of the persistent updates, decided on the ordered,
// path-sensitive trace of file-system calls of each writer function (crash model of DESIGN 4.4:
// a kill preserves every completed system call; os.WriteFile = open-truncate, write, close;
// os.Rename and os.Remove are atomic).
//
//	R1  a non-atomic write (os.WriteFile, OpenFile for writing, Create, Truncate) never targets a
//	    live file: its path is a temporary name (<x>.tmp); no file is created under a generated
//	    name (os.CreateTemp), which the loaders could mistake for a live file
//	R2  a rename whose source is a temporary name is reached only after the write of that very
//	    path returned nil (the temporary file is complete before it replaces the live file)
//	R3  a temporary file opened for writing is truncated or created exclusively
//	R4  the function reports success only after its commit step (rename into place / remove)
//	R5  loader functions perform no mutating file-system call
//	R6  no write, create or rename can follow the removal of a live file in the same execution

import (
	"fmt"
	"strings"

	"golang.org/x/tools/go/ssa"
)

func init() { plugins["crash"] = pluginCrash }

// isTmpTerm: the path is (syntactically) some string concatenated with ".tmp".  Every other path
// counts as a live file, so a temporary name built in another way fails R1 rather than passing it.
func isTmpTerm(vc *VC, t string, tmpID string) string {
	c := vc.canon(t)
	if strings.HasPrefix(c, "(strcat ") && strings.HasSuffix(c, " "+tmpID+")") {
		return "true"
	}
	return "false"
}

func pluginCrash(r *Run, it Item) {
	key := it.Func
	loader := strings.Contains(it.Opts, "loader")
	var tmpID string
	setup := func(x *Exec) {
		S := x.vc.S
		_ = S
		tmpID = itoa(int64(x.strConst(".tmp")))
	}
	fr := r.Eng.verifyFuncOpts(key, RunOpts{Trace: true, Depth: 2, Over: map[string]stdModel{}, Setup: setup, NoModular: true})
	r.results[key] = fr
	if fr.Err != "" {
		r.Errors = append(r.Errors, key+": "+fr.Err)
		return
	}
	r.Funcs = append(r.Funcs, key)
	vc := fr.VC
	vc.obls = nil
	n := 0
	// ghost: the last temporary path whose write completed with a nil error on this path
	type wr struct {
		cs   *CallSite
		path string
		ok   string
	}
	var writes []wr
	var liveRemoves []*CallSite
	commitReach := "false"
	for _, cs := range fr.Trace.calls {
		pos := r.Eng.pos(cs.Pos)
		site := fmt.Sprintf("%s#%d", cs.Callee, cs.Ord)
		if loader {
			if mutatingClass(cs.Class) && cs.Class != "" && strings.HasPrefix(cs.Class, "fs.") && cs.Class != "fs.open" {
				n++
				vc.oblige(fmt.Sprintf("%s#crash:loader-mutates:%s", key, site), "crash", cs.Reach, "false", pos)
			}
			if cs.Callee == "os.OpenFile" || cs.Callee == "os.Create" {
				n++
				vc.oblige(fmt.Sprintf("%s#crash:loader-mutates:%s", key, site), "crash", cs.Reach, "false", pos)
			}
			continue
		}
		switch cs.Callee {
		case "os.WriteFile":
			n++
			p := cs.Args[0][0].T
			vc.oblige(fmt.Sprintf("%s#crash:R1-write-to-live-file:%s", key, site), "crash", cs.Reach, isTmpTerm(vc, p, tmpID), pos)
			writes = append(writes, wr{cs, p, eq(cs.Res[0].T, "0")})
		case "os.OpenFile", "os.Create":
			n++
			p := cs.Args[0][0].T
			writing := "true"
			trunc := "true"
			if cs.Callee == "os.OpenFile" {
				fl := cs.Args[1][0].T
				// O_WRONLY=1, O_RDWR=2 ; O_TRUNC=0x200 (bit 9) ; O_EXCL=0x80 (bit 7)
				writing = or(eq(sx("bitat", fl, "0"), "1"), eq(sx("bitat", fl, "1"), "1"))
				trunc = or(eq(sx("bitat", fl, "9"), "1"), eq(sx("bitat", fl, "7"), "1"))
			}
			vc.oblige(fmt.Sprintf("%s#crash:R1-write-to-live-file:%s", key, site), "crash", and(cs.Reach, writing), isTmpTerm(vc, p, tmpID), pos)
			vc.oblige(fmt.Sprintf("%s#crash:R3-temp-not-truncated:%s", key, site), "crash", and(cs.Reach, writing), trunc, pos)
			// the write through the handle completes when (*os.File).Write returned nil; tracked below
			writes = append(writes, wr{cs, p, "false"})
		case "(*os.File).Write", "(*os.File).WriteString":
			if len(writes) > 0 {
				w := &writes[len(writes)-1]
				w.ok = and(cs.Reach, eq(cs.Res[1].T, "0"))
			}
		case "os.CreateTemp":
			// R1 also: a temporary file must be recognisable as one (<final name>.tmp).  A generated
			// name in the data directory may match what the loaders pick up (*.yaml, ...), so a crash
			// between creation and rename leaves a torn file that is loaded on restart.
			n++
			vc.oblige(fmt.Sprintf("%s#crash:R1-temp-name-not-recognisable:%s", key, site), "crash", cs.Reach, "false", pos)
		case "os.Truncate":
			n++
			vc.oblige(fmt.Sprintf("%s#crash:R1-write-to-live-file:%s", key, site), "crash", cs.Reach, isTmpTerm(vc, cs.Args[0][0].T, tmpID), pos)
		case "os.Rename":
			n++
			src, dst := cs.Args[0][0].T, cs.Args[1][0].T
			var okSome []string
			for _, w := range writes {
				okSome = append(okSome, and(w.cs.Reach, eq(w.path, src), w.ok))
			}
			vc.oblige(fmt.Sprintf("%s#crash:R2-rename-of-incomplete-temp:%s", key, site), "crash", and(cs.Reach, isTmpTerm(vc, src, tmpID)), or(okSome...), pos)
			vc.oblige(fmt.Sprintf("%s#crash:R2-rename-onto-temp:%s", key, site), "crash", cs.Reach, or(not(isTmpTerm(vc, dst, tmpID)), isTmpTerm(vc, src, tmpID)), pos)
			commitReach = or(commitReach, and(cs.Reach, eq(cs.Res[0].T, "0"), not(isTmpTerm(vc, dst, tmpID))))
		case "os.Remove", "os.RemoveAll":
			commitReach = or(commitReach, and(cs.Reach, eq(cs.Res[0].T, "0")))
			liveRemoves = append(liveRemoves, cs)
		}
		// R6: removing a live file is the last file-system step.  A write, create or rename that can
		// follow a removal on the same path of execution means the old state is gone before the new
		// one is committed: a crash in between loses the record altogether.
		switch cs.Callee {
		case "os.WriteFile", "os.OpenFile", "os.Create", "os.Rename", "os.CreateTemp", "os.Truncate":
			for _, rm := range liveRemoves {
				if isTmpTerm(vc, rm.Args[0][0].T, tmpID) == "true" {
					continue
				}
				n++
				vc.oblige(fmt.Sprintf("%s#crash:R6-removal-before-replacement:%s#%d-then-%s", key, rm.Callee, rm.Ord, site), "crash", "true", not(and(rm.Reach, cs.Reach)), pos)
			}
		}
	}
	if !loader {
		// R4: success only after the commit step
		for k, rs := range fr.Frame.rets {
			if len(rs.vals) == 0 {
				continue
			}
			errv := rs.vals[len(rs.vals)-1]
			n++
			vc.oblige(fmt.Sprintf("%s#crash:R4-success-without-commit@ret%d", key, k+1), "crash", and(rs.reach, eq(errv[0].T, "0")), commitReach, r.Eng.pos(rs.pos))
		}
	}
	if n == 0 && !loader {
		r.Errors = append(r.Errors, key+": no file-system step found")
		return
	}
	vc.cover(key+"#cover:exit", fr.OutReach, "")
	r.pending = append(r.pending, pendingVC{vc, r.Prop + "_" + key})
	_ = ssa.BuilderMode(0)
}
