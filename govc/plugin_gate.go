package main

// Plug-in "gate" (C04): in the connection function every effect on server state or on what
// other users receive, every outbox send and every request dispatch is reachable only after a
// valid handshake and a successful Authenticate.

import (
	"fmt"
)

func init() { plugins["gate"] = pluginGate }

func pluginGate(r *Run, it Item) {
	key := it.Func
	fr := r.Eng.verifyFuncOpts(key, RunOpts{Trace: true, Depth: 0, Over: sitesOver()})
	if fr.Err != "" {
		r.Errors = append(r.Errors, key+": "+fr.Err)
		return
	}
	vc := fr.VC
	vc.obls = nil
	hs := fr.Trace.callsTo("hotline.performHandshake")
	au := fr.Trace.callsTo("(*hotline.ClientConn).Authenticate")
	if len(hs) != 1 || len(au) != 1 {
		r.Errors = append(r.Errors, fmt.Sprintf("%s: expected exactly one performHandshake and one Authenticate call, found %d / %d", key, len(hs), len(au)))
		return
	}
	gate := and(hs[0].Reach, eq(hs[0].Res[0].T, "0"), au[0].Reach, au[0].Res[0].T)
	n := 0
	deferred := map[string]*Obligation{}
	for _, cs := range fr.Trace.calls {
		class := cs.Class
		if cs.Callee == "(*hotline.ClientConn).handleTransaction" {
			class = "dispatch"
		}
		if class == "" || !mutatingClass(class) {
			continue
		}
		n++
		if cs.IsDefer {
			// a deferred call runs at every exit: one obligation for all of them
			name := fmt.Sprintf("%s#gate:%s:deferred:%s", key, class, cs.Callee)
			if o, ok := deferred[name]; ok {
				o.Reach = or(o.Reach, cs.Reach)
				continue
			}
			deferred[name] = vc.oblige(name, "gate", cs.Reach, gate, r.Eng.pos(cs.Pos))
			continue
		}
		vc.oblige(fmt.Sprintf("%s#gate:%s:call:%s#%d", key, class, cs.Callee, cs.Ord), "gate", cs.Reach, gate, r.Eng.pos(cs.Pos))
	}
	for i, s := range fr.Trace.sends {
		n++
		vc.oblige(fmt.Sprintf("%s#gate:outbox-send#%d", key, i+1), "gate", s.Reach, gate, r.Eng.pos(s.Instr.Pos()))
	}
	if n == 0 {
		r.Errors = append(r.Errors, key+": no effect site found")
	}
	vc.cover(key+"#cover:gate-open", gate, "")
	r.pending = append(r.pending, pendingVC{vc, r.Prop + "_gate_" + key})
}
