package main

// Models (assumed contracts) of standard-library and third-party functions.
// Every name used during a run is reported in the evidence `assumptions`.

import (
	"fmt"
	"go/types"
	"strconv"
	"strings"

	"golang.org/x/tools/go/ssa"
)

type stdModel func(x *Exec, fr *frame, ins ssa.CallInstruction, c *ssa.CallCommon, args []Val, st *State, r string) (Val, string)

var stdModels = map[string]stdModel{}

var usedModels = map[string]bool{}

func init() {
	for k, v := range map[string]stdModel{
		"(encoding/binary.bigEndian).Uint16":           beGet(2),
		"(encoding/binary.bigEndian).Uint32":           beGet(4),
		"(encoding/binary.bigEndian).Uint64":           beGet(8),
		"(encoding/binary.bigEndian).PutUint16":        bePut(2),
		"(encoding/binary.bigEndian).PutUint32":        bePut(4),
		"(encoding/binary.bigEndian).PutUint64":        bePut(8),
		"slices.Concat":                                slicesConcat,
		"bytes.Equal":                                  bytesEqual,
		"errors.New":                                   newError,
		"(io/fs.DirEntry).Name":                        entryName,
		"(os.DirEntry).Name":                           entryName,
		"strings.ReplaceAll":                           replaceAll,
		"(*golang.org/x/text/encoding.Encoder).String": encoderString,
		"os.IsNotExist":                                errPredicate,
		"os.IsExist":                                   errPredicate,
		"errors.Is":                                    errPredicate,
		"fmt.Errorf":                                   newError,
		"sort.Ints":                                    sortInts,
		"math/big.NewInt":                              bigNewInt,
		"(*math/big.Int).Bit":                          bigBit,
		"(*math/big.Int).SetBit":                       bigSetBit,
		"(*math/big.Int).Int64":                        bigInt64,
		"(*sync/atomic.Uint32).Add":                    atomicAdd,
		"(*sync/atomic.Uint32).Load":                   atomicLoad,
		"(*sync/atomic.Uint32).Store":                  atomicStore,
		"(*sync/atomic.Int32).Add":                     atomicAdd,
		"(*sync/atomic.Int32).Load":                    atomicLoad,
		"(*sync/atomic.Int64).Add":                     atomicAdd,
		"(*sync/atomic.Int64).Load":                    atomicLoad,
		"(*sync.Mutex).Lock":                           lockModel("1"),
		"(*sync.Mutex).Unlock":                         lockModel("0"),
		"(*sync.RWMutex).Lock":                         lockModel("1"),
		"(*sync.RWMutex).Unlock":                       lockModel("0"),
		"(*sync.RWMutex).RLock":                        lockModel("2"),
		"(*sync.RWMutex).RUnlock":                      lockModel("0"),
	} {
		stdModels[k] = v
	}
}

func used(name string) { usedModels[name] = true }

// sync/atomic.Uint32 / Int32 / Int64: struct{_ noCopy; v T}; sequentially consistent, modelled
// as plain loads and stores of the value cell (single-threaded view; interference is RG's business)
func atomicCell(x *Exec, c *ssa.CallCommon, args []Val) (ref, off string, t types.Type) {
	o, ft := x.fieldAt(c.Args[0].Type(), "v")
	return args[0][0].T, add(args[0][1].T, itoa(int64(o))), ft
}

func atomicAdd(x *Exec, fr *frame, ins ssa.CallInstruction, c *ssa.CallCommon, args []Val, st *State, r string) (Val, string) {
	used("sync/atomic.(*T).Add/Load/Store: read-modify-write of the value cell (wraps at the width of T)")
	ref, off, t := atomicCell(x, c, args)
	r = x.guard(fr, ins, r, not(eq(ref, "0")), "nil-deref")
	nv := x.vc.S.def("atomic", ic(x.wrap(t, sx("+", x.vc.read(st.Mem, ref, off), args[1][0].T)))).T
	x.vc.store(st, ref, off, Val{ic(nv)})
	return Val{ic(nv)}, r
}

func atomicLoad(x *Exec, fr *frame, ins ssa.CallInstruction, c *ssa.CallCommon, args []Val, st *State, r string) (Val, string) {
	used("sync/atomic.(*T).Add/Load/Store: read-modify-write of the value cell (wraps at the width of T)")
	ref, off, t := atomicCell(x, c, args)
	r = x.guard(fr, ins, r, not(eq(ref, "0")), "nil-deref")
	v := x.vc.S.defVal("aload", Val{ic(x.vc.read(st.Mem, ref, off))})
	x.typeFacts(r, t, v, st)
	return v, r
}

func atomicStore(x *Exec, fr *frame, ins ssa.CallInstruction, c *ssa.CallCommon, args []Val, st *State, r string) (Val, string) {
	ref, off, _ := atomicCell(x, c, args)
	r = x.guard(fr, ins, r, not(eq(ref, "0")), "nil-deref")
	x.vc.store(st, ref, off, Val{args[1][0]})
	return Val{}, r
}

// lockKey identifies a mutex by the address expression it is reached through.
func lockKey(vc *VC, v Val) string {
	b, c := vc.splitOffC(v[1].T)
	return fmt.Sprintf("lock:%s+%s+%d", vc.canon(v[0].T), b, c)
}

func lockModel(held string) stdModel {
	return func(x *Exec, fr *frame, ins ssa.CallInstruction, c *ssa.CallCommon, args []Val, st *State, r string) (Val, string) {
		used("sync.Mutex / RWMutex: Lock..Unlock delimit an exclusive critical section, RLock..RUnlock a shared one (ghost lock set: 1 exclusive, 2 shared); mutual exclusion itself is the library's guarantee")
		st.Ghost[lockKey(x.vc, args[0])] = held
		if held != "0" {
			st.Ghost["heldlocks"] = x.vc.S.def("g_held", ic(add(ghost(st, "heldlocks"), "1"))).T
		} else {
			st.Ghost["heldlocks"] = x.vc.S.def("g_held", ic(sub(ghost(st, "heldlocks"), "1"))).T
		}
		return Val{}, r
	}
}

// math/big for the small non-negative integers the code uses it for (16-bit flag words):
// NewInt(v) is an object whose cell 0 holds v; Bit / SetBit / Int64 act on that value.
func bigNewInt(x *Exec, fr *frame, ins ssa.CallInstruction, c *ssa.CallCommon, args []Val, st *State, r string) (Val, string) {
	used("math/big: NewInt(v).Bit(i) is bit i of v, SetBit(x,i,b) replaces bit i, Int64 returns the value (for 0 <= v < 2^63, 0 <= i < 64)")
	ref := x.vc.alloc(st, "bigint")
	x.vc.store(st, ref, "0", Val{args[0][0]})
	return Val{ic(ref), ic("0")}, r
}

func bigBit(x *Exec, fr *frame, ins ssa.CallInstruction, c *ssa.CallCommon, args []Val, st *State, r string) (Val, string) {
	v := x.vc.read(st.Mem, args[0][0].T, args[0][1].T)
	i := args[1][0].T
	ok := and(sx("<=", "0", v), sx("<=", "0", i), sx("<", i, "64"))
	h := x.vc.S.freshConst("bigbit", false)
	x.vc.S.fact(r, and(sx("<=", "0", h), sx("<=", h, "1")))
	return Val{ic(ite(ok, sx("bitat", v, i), h))}, r
}

func bigSetBit(x *Exec, fr *frame, ins ssa.CallInstruction, c *ssa.CallCommon, args []Val, st *State, r string) (Val, string) {
	// z.SetBit(x, i, b)
	z, src, i, b := args[0], args[1], args[2][0].T, args[3][0].T
	v := x.vc.read(st.Mem, src[0].T, src[1].T)
	ok := and(sx("<=", "0", v), sx("<=", "0", i), sx("<", i, "63"), or(eq(b, "0"), eq(b, "1")))
	cur := sx("bitat", v, i)
	nv := ite(eq(b, cur), v, ite(eq(b, "1"), sx("+", v, sx("pow2", i)), sx("-", v, sx("pow2", i))))
	h := x.vc.S.freshConst("bigset", false)
	x.vc.store(st, z[0].T, z[1].T, Val{ic(ite(ok, nv, h))})
	return z, r
}

func bigInt64(x *Exec, fr *frame, ins ssa.CallInstruction, c *ssa.CallCommon, args []Val, st *State, r string) (Val, string) {
	v := x.vc.S.defVal("bigv", Val{ic(x.vc.read(st.Mem, args[0][0].T, args[0][1].T))})
	return v, r
}

// sort.Ints(a): a becomes ascending; it is a permutation of its old content (stated here through
// what the proofs use: every new element is an old element and every old element is <= the new last)
func sortInts(x *Exec, fr *frame, ins ssa.CallInstruction, c *ssa.CallCommon, args []Val, st *State, r string) (Val, string) {
	used("sort.Ints(a): afterwards a is ascending and a permutation of its previous content")
	a := args[0]
	old := st.Mem
	keepNot := and(eq("r", a[0].T), sx("<=", a[1].T, "o"), sx("<", "o", add(a[1].T, a[2].T)))
	x.vc.havocMem(st, not(keepNot))
	nm := st.Mem
	ref, off, n := a[0].T, a[1].T, a[2].T
	S := x.vc.S
	S.fact(r, fmt.Sprintf("(forall ((i Int) (j Int)) (=> (and (<= 0 i) (<= i j) (< j %s)) (<= (%s %s (+ %s i)) (%s %s (+ %s j)))))", n, nm, ref, off, nm, ref, off))
	S.fact(r, fmt.Sprintf("(forall ((j Int)) (=> (and (<= 0 j) (< j %s)) (<= (%s %s (+ %s j)) (%s %s (+ %s (- %s 1))))))", n, old, ref, off, nm, ref, off, n))
	w := S.freshConst("sort_wit", false)
	S.fact(r, implies(sx(">", n, "0"), and(sx("<=", "0", w), sx("<", w, n), eq(x.vc.read(nm, ref, add(off, sub(n, "1"))), x.vc.read(old, ref, add(off, w))))))
	return Val{}, r
}

func noopModel(x *Exec, fr *frame, ins ssa.CallInstruction, c *ssa.CallCommon, args []Val, st *State, r string) (Val, string) {
	return zeroVal(x.vc.ls.of(c.Signature().Results())), r
}

// Uint16(b): panics unless len(b) >= n
func beGet(n int) stdModel {
	return func(x *Exec, fr *frame, ins ssa.CallInstruction, c *ssa.CallCommon, args []Val, st *State, r string) (Val, string) {
		used(fmt.Sprintf("binary.BigEndian.Uint%d: big-endian value of b[0:%d], panics when len(b) < %d", n*8, n, n))
		b := args[1]
		r = x.guard(fr, ins, r, sx(">=", b[2].T, itoa(int64(n))), "index")
		return Val{ic(beTerm(func(i int) string { return x.vc.read(st.Mem, b[0].T, add(b[1].T, itoa(int64(i)))) }, n))}, r
	}
}

func beTerm(at func(i int) string, n int) string {
	var ts []string
	for i := 0; i < n; i++ {
		sh := (n - 1 - i) * 8
		if sh == 0 {
			ts = append(ts, at(i))
		} else {
			ts = append(ts, sx("*", at(i), pow2(sh)))
		}
	}
	if len(ts) == 1 {
		return ts[0]
	}
	return sx("+", ts...)
}

func beByte(v string, n, i int) string {
	sh := (n - 1 - i) * 8
	if sh == 0 {
		return sx("mod", v, "256")
	}
	return sx("mod", sx("div", v, pow2(sh)), "256")
}

func bePut(n int) stdModel {
	return func(x *Exec, fr *frame, ins ssa.CallInstruction, c *ssa.CallCommon, args []Val, st *State, r string) (Val, string) {
		used(fmt.Sprintf("binary.BigEndian.PutUint%d: writes the %d big-endian bytes of v to b[0:%d], panics when len(b) < %d", n*8, n, n, n))
		b, v := args[1], args[2][0].T
		r = x.guard(fr, ins, r, sx(">=", b[2].T, itoa(int64(n))), "index")
		var cells Val
		for i := 0; i < n; i++ {
			cells = append(cells, ic(beByte(v, n, i)))
		}
		x.vc.store(st, b[0].T, b[1].T, x.vc.S.defVal("be", cells))
		return Val{}, r
	}
}

// slices.Concat(ss ...[]byte): fresh slice holding the concatenation.
func slicesConcat(x *Exec, fr *frame, ins ssa.CallInstruction, c *ssa.CallCommon, args []Val, st *State, r string) (Val, string) {
	used("slices.Concat: returns a fresh slice whose content is the concatenation of the arguments (len = sum of lens)")
	// the variadic argument is a slice of slices built in this function: recover its parts
	parts, ok := x.variadicParts(fr, c.Args[0], st)
	if !ok {
		return x.havocCall("slices.Concat", c.Signature().Results(), args, c.Args, st, r), r
	}
	es := 1
	if sl, ok := c.Signature().Results().At(0).Type().Underlying().(*types.Slice); ok {
		es = x.vc.ls.size(sl.Elem())
	}
	mem := st.Mem
	var seqs []*Seq
	for _, p := range parts {
		p := p
		seqs = append(seqs, &Seq{Len: mulc(p[2].T, es), At: func(i string) string { return x.vc.read(mem, p[0].T, add(p[1].T, i)) }})
	}
	cs := catSeq(x, seqs)
	total := cs.Len
	if es != 1 {
		total = x.vc.S.def("cat_n", ic(sx("div", cs.Len, itoa(int64(es))))).T
	}
	ref := x.vc.allocWith(st, "concat", cs.Len, cs.At)
	// Go: Concat of all-empty slices returns nil; keep it simple and sound for len/content
	return Val{ic(ref), ic("0"), ic(total), ic(total)}, r
}

// variadicParts resolves `slice t[:]` of `new [k]T (varargs)` into its k element values
// by reading them back from memory.
func (x *Exec) variadicParts(fr *frame, v ssa.Value, st *State) ([]Val, bool) {
	sl, ok := v.(*ssa.Slice)
	if !ok {
		if c, ok := v.(*ssa.Const); ok && c.Value == nil {
			return nil, true
		}
		return nil, false
	}
	al, ok := sl.X.(*ssa.Alloc)
	if !ok {
		return nil, false
	}
	arr, ok := deref(al.Type()).Underlying().(*types.Array)
	if !ok {
		return nil, false
	}
	base := x.val(fr, al)
	el := x.vc.ls.of(arr.Elem())
	var parts []Val
	for k := 0; k < int(arr.Len()); k++ {
		parts = append(parts, x.vc.S.defVal("part", x.vc.load(st, el, base[0].T, add(base[1].T, itoa(int64(k*len(el.cells)))))))
	}
	return parts, true
}

func bytesEqual(x *Exec, fr *frame, ins ssa.CallInstruction, c *ssa.CallCommon, args []Val, st *State, r string) (Val, string) {
	used("bytes.Equal: true iff same length and same bytes")
	a, b := args[0], args[1]
	S := x.vc.S
	e := S.freshConst("bytes_eq", true)
	k := S.freshConst("bytes_eq_wit", false)
	// a literal operand (bytes.Equal([]byte{0}, x)) has a small constant length: the equality is
	// then spelled out element by element -- no quantifier, and no trigger over a macro memory
	constLen := int64(-1)
	for _, v := range []Val{a, b} {
		if n, err := strconv.ParseInt(v[2].T, 10, 64); err == nil && n <= 16 {
			constLen = n
		}
	}
	if constLen >= 0 {
		var eqs []string
		for i := int64(0); i < constLen; i++ {
			eqs = append(eqs, eq(x.vc.read(st.Mem, a[0].T, add(a[1].T, itoa(i))), x.vc.read(st.Mem, b[0].T, add(b[1].T, itoa(i)))))
		}
		S.fact(r, eq(e, and(append([]string{eq(a[2].T, b[2].T)}, eqs...)...)))
		return Val{bc(e)}, r
	}
	S.fact(r, implies(e, and(eq(a[2].T, b[2].T),
		fmt.Sprintf("(forall ((i Int)) (=> (and (<= 0 i) (< i %s)) (= (%s %s (+ %s i)) (%s %s (+ %s i)))))",
			a[2].T, st.Mem, a[0].T, a[1].T, st.Mem, b[0].T, b[1].T))))
	S.fact(r, implies(not(e), or(not(eq(a[2].T, b[2].T)),
		and(sx("<=", "0", k), sx("<", k, a[2].T), not(eq(x.vc.read(st.Mem, a[0].T, add(a[1].T, k)), x.vc.read(st.Mem, b[0].T, add(b[1].T, k))))))))
	return Val{bc(e)}, r
}

func newError(x *Exec, fr *frame, ins ssa.CallInstruction, c *ssa.CallCommon, args []Val, st *State, r string) (Val, string) {
	used("errors.New / fmt.Errorf: return a non-nil error and write no caller-visible memory")
	v := x.havocVal(c.Signature().Results(), st, r, "err")
	x.vc.S.fact(r, not(eq(v[0].T, "0")))
	return v, r
}

// ---- classification tables ---------------------------------------------------------

// functions that neither write caller-visible memory nor have a server-state effect
var noEffectPrefixes = []string{
	"(*log/slog.Logger).", "log/slog.", "fmt.Sprint", "fmt.Errorf", "errors.", "strings.", "bytes.", "path.", "path/filepath.Join",
	"path/filepath.Base", "path/filepath.Dir", "path/filepath.Clean", "path/filepath.Ext", "time.Now", "time.Date", "(time.Time).", "time.Since", "os.IsNotExist", "os.IsExist",
	"(io/fs.FileMode).", "(io/fs.FileInfo).", "(os.FileInfo).", "(os.DirEntry).", "(os.FileMode).", "math/big.NewInt", "(*math/big.Int).Bit", "(*math/big.Int).Int64",
	"strconv.", "unicode", "slices.", "sort.", "cmp.", "encoding/binary.", "(encoding/binary.", "math/rand.", "(*golang.org/x/text/encoding.Encoder).String",
	"(*golang.org/x/text/encoding.Decoder).String", "golang.org/x/crypto/bcrypt.", "time.Sleep", "(*sync.Mutex).", "(*sync.RWMutex).",
	"hotline.HashAndSalt", "(*sync/atomic.", "(error).Error", "io.ReadAll", "(*math/big.Int).SetBit", "(io/fs.DirEntry).", "encoding/hex.",
	"regexp.", "(*regexp.Regexp).", "(*bufio.Scanner).", "bufio.NewScanner", "gopkg.in/yaml.v3.Marshal", "(hotline.FileStore).", "os.WriteFile", "os.Rename", "os.Remove", "os.RemoveAll", "os.Mkdir", "os.MkdirAll",
	"os.Stat", "os.Lstat", "os.Open", "os.OpenFile", "os.ReadFile", "os.ReadDir", "os.Symlink", "os.Readlink", "(*os.File).", "os.Create", "path/filepath.", "mime.", "unicode/utf8.", "(time.Duration).", "fmt.Fprint", "os.Getenv", "net.SplitHostPort",
}

func isNoEffect(name string) bool {
	for _, p := range noEffectPrefixes {
		if strings.HasPrefix(name, p) {
			return true
		}
	}
	return false
}

var pureFuncs = map[string]bool{
	"(io/fs.FileMode).IsDir":     true,
	"(io/fs.FileMode).IsRegular": true,
	"os.IsNotExist":              true,
	"path.Join":                  false,
}

var noInline = map[string]bool{}

// effectClass classifies callees that change server state or disclose protected data.
func effectClass(name string) string {
	for _, e := range effectTable {
		if calleeMatch(e.pat, name) {
			return e.class
		}
	}
	return ""
}

type effectRow struct{ pat, class string }

var effectTable = []effectRow{
	{"(hotline.FileStore).Mkdir", "fs.mkdir"},
	{"(hotline.FileStore).Remove", "fs.remove"},
	{"(hotline.FileStore).RemoveAll", "fs.remove"},
	{"(hotline.FileStore).Rename", "fs.rename"},
	{"(hotline.FileStore).Symlink", "fs.symlink"},
	{"(hotline.FileStore).WriteFile", "fs.write"},
	{"(hotline.FileStore).Create", "fs.write"},
	{"(hotline.FileStore).OpenFile", "fs.open"},
	{"os.Mkdir", "fs.mkdir"}, {"os.MkdirAll", "fs.mkdir"},
	{"os.Remove", "fs.remove"}, {"os.RemoveAll", "fs.remove"},
	{"os.Rename", "fs.rename"}, {"os.Symlink", "fs.symlink"}, {"os.Link", "fs.symlink"},
	{"os.WriteFile", "fs.write"}, {"os.Create", "fs.write"}, {"os.OpenFile", "fs.open"},
	{"os.Truncate", "fs.write"}, {"os.Chmod", "fs.write"},
	{"(*hotline.fileWrapper).Delete", "fs.remove"},
	{"(*hotline.fileWrapper).Move", "fs.rename"},
	{"(*hotline.fileWrapper).InfoForkWriter", "fs.write"},
	{"(hotline.AccountManager).Create", "account.create"},
	{"(hotline.AccountManager).Update", "account.update"},
	{"(hotline.AccountManager).Delete", "account.delete"},
	{"(hotline.AccountManager).Get", "account.read"},
	{"(hotline.AccountManager).List", "account.read"},
	{"(hotline.ThreadedNewsMgr).PostArticle", "news.post"},
	{"(hotline.ThreadedNewsMgr).DeleteArticle", "news.delete"},
	{"(hotline.ThreadedNewsMgr).DeleteNewsItem", "news.delete"},
	{"(hotline.ThreadedNewsMgr).CreateGrouping", "news.create"},
	{"(hotline.ThreadedNewsMgr).GetArticle", "news.read"},
	{"(hotline.ThreadedNewsMgr).ListArticles", "news.read"},
	{"(hotline.ThreadedNewsMgr).GetCategories", "news.read"},
	{"(hotline.ThreadedNewsMgr).NewsItem", "news.read"},
	{"(io.ReadWriteSeeker).Write", "board.write"},
	{"(io.ReadWriteSeeker).Read", "board.read"},
	{"(io.ReadWriteSeeker).Seek", "board.read"},
	{"(hotline.BanMgr).Add", "ban.add"},
	{"(hotline.ChatManager).New", "chat.new"},
	{"(hotline.ChatManager).Join", "chat.join"},
	{"(hotline.ChatManager).Leave", "chat.leave"},
	{"(hotline.ChatManager).SetSubject", "chat.subject"},
	{"(hotline.ClientManager).Add", "registry.add"},
	{"(*hotline.Server).NewClientConn", "registry.add"},
	{"(hotline.Counter).Increment", "stats"},
	{"(hotline.Counter).Decrement", "stats"},
	{"(hotline.Counter).Set", "stats"},
	{"(hotline.ClientManager).Delete", "registry.delete"},
	{"(*hotline.ClientConn).NewFileTransfer", "transfer.create"},
	{"(hotline.FileTransferMgr).Add", "transfer.create"},
	{"(*hotline.ClientConn).SendAll", "send.all"},
	{"(*hotline.ClientConn).Disconnect", "disconnect"},
	{"(*hotline.ClientConn).String", "clientinfo.read"},
	{"hotline.GetFileNameList", "fs.list"},
	{"hotline.CalcTotalSize", "fs.list"},
	{"hotline.CalcItemCount", "fs.list"},
}

// mutatingClass: effect classes that change server state or reach other users (as opposed to reads)
func mutatingClass(c string) bool {
	switch c {
	case "account.read", "news.read", "board.read", "fs.list", "clientinfo.read", "fs.open":
		return false
	}
	return true
}

// os.IsNotExist(err), os.IsExist(err), errors.Is(err, target): an uninterpreted predicate of the
// error(s) that holds only of a non-nil error (errors.Is: unless the target itself is nil).
func errPredicate(x *Exec, fr *frame, ins ssa.CallInstruction, c *ssa.CallCommon, args []Val, st *State, r string) (Val, string) {
	name := x.calleeName(c)
	used(name + "(err, ...): a pure predicate; true only if err != nil (or, for errors.Is, the target is nil too)")
	res := x.pureCall(name, c.Signature().Results(), args, st, r)
	nonnil := not(eq(args[0][0].T, "0"))
	if len(args) > 1 {
		nonnil = or(nonnil, eq(args[1][0].T, "0"))
	}
	x.vc.S.fact(r, implies(res[0].T, nonnil))
	return res, r
}

// (fs.DirEntry).Name(): the name of a directory entry: non-empty, at most NAME_MAX (255) bytes.
func entryName(x *Exec, fr *frame, ins ssa.CallInstruction, c *ssa.CallCommon, args []Val, st *State, r string) (Val, string) {
	used("(fs.DirEntry).Name(): a pure getter; the name is 1..255 bytes long (NAME_MAX)")
	res := x.pureCall("(io/fs.DirEntry).Name", c.Signature().Results(), args, st, r)
	x.vc.S.fact(r, and(sx("<=", "1", sx("strlen", res[0].T)), sx("<=", sx("strlen", res[0].T), "255")))
	return res, r
}

// strings.ReplaceAll(s, old, new): a pure function; not longer than s when new is not longer than old.
func replaceAll(x *Exec, fr *frame, ins ssa.CallInstruction, c *ssa.CallCommon, args []Val, st *State, r string) (Val, string) {
	used("strings.ReplaceAll(s, old, new): pure; len(result) <= len(s) when len(new) <= len(old)")
	res := x.pureCall("strings.ReplaceAll", c.Signature().Results(), args, st, r)
	ln := func(v Val) string { return sx("strlen", v[0].T) }
	x.vc.S.fact(r, sx("<=", "0", ln(res)))
	x.vc.S.fact(r, implies(sx("<=", ln(args[2]), ln(args[1])), sx("<=", ln(res), ln(args[0]))))
	return res, r
}

// (*encoding.Encoder).String(s): for a single-byte character map the output has one byte per input
// rune, hence is not longer than the UTF-8 input.
func encoderString(x *Exec, fr *frame, ins ssa.CallInstruction, c *ssa.CallCommon, args []Val, st *State, r string) (Val, string) {
	used("(*encoding.Encoder).String(s) of a single-byte charmap: (r, nil) with len(r) <= len(s), or an error")
	res := x.havocCall("(*golang.org/x/text/encoding.Encoder).String", c.Signature().Results(), args, c.Args, st, r)
	x.vc.S.fact(r, and(sx("<=", "0", sx("strlen", res[0].T)), implies(eq(res[1].T, "0"), sx("<=", sx("strlen", res[0].T), sx("strlen", args[1][0].T)))))
	return res, r
}
