package main

// Solver race: z3-new first; on unknown/timeout z3 4.8.12 and cvc5 in parallel.

import (
	"strconv"
	"context"
	"fmt"
	"os"
	"os/exec"
	"path/filepath"
	"regexp"
	"sort"
	"strings"
	"sync"
	"time"
)

type solverCfg struct {
	name string
	argv func(file string, secs int) []string
}

var solvers = []solverCfg{
	{"z3-5.1.0", func(f string, s int) []string { return []string{"z3-new", fmt.Sprintf("-T:%d", s), f} }},
	{"z3-4.8.12", func(f string, s int) []string { return []string{"z3", fmt.Sprintf("-T:%d", s), f} }},
	{"cvc5-1.0", func(f string, s int) []string {
		return []string{"cvc5", "--lang=smt2", fmt.Sprintf("--tlimit=%d", s*1000), "--produce-models", f}
	}},
}

type solveResult struct {
	status string // unsat | sat | unknown
	solver string
	secs   float64
	out    string
}

func runSolver(ctx context.Context, sc solverCfg, file string, secs int) solveResult {
	t0 := time.Now()
	argv := sc.argv(file, secs)
	cctx, cancel := context.WithTimeout(ctx, time.Duration(secs+2)*time.Second)
	defer cancel()
	cmd := exec.CommandContext(cctx, argv[0], argv[1:]...)
	out, _ := cmd.CombinedOutput()
	s := string(out)
	first := strings.TrimSpace(strings.SplitN(s, "\n", 2)[0])
	st := "unknown"
	switch first {
	case "unsat":
		st = "unsat"
	case "sat":
		st = "sat"
	}
	return solveResult{status: st, solver: sc.name, secs: time.Since(t0).Seconds(), out: s}
}

func race(file string, quick, slow int) solveResult {
	r := runSolver(context.Background(), solvers[0], file, quick)
	if r.status != "unknown" {
		return r
	}
	ctx, cancel := context.WithCancel(context.Background())
	defer cancel()
	ch := make(chan solveResult, 3)
	for _, sc := range []solverCfg{solvers[1], solvers[2], solvers[0]} {
		sc := sc
		go func() { ch <- runSolver(ctx, sc, file, slow) }()
	}
	last := r
	for i := 0; i < 3; i++ {
		x := <-ch
		if x.status != "unknown" {
			return x
		}
		last.out += "\n--- " + x.solver + " ---\n" + x.out
	}
	last.status = "unknown"
	return last
}

var modelLine = regexp.MustCompile(`\(define-fun ([^ ]+) \(\) (Int|Bool)\s+([^\n]+)\)`)

func parseModel(out string) map[string]string {
	m := map[string]string{}
	// join lines so that "(define-fun x () Int\n  5)" matches
	joined := regexp.MustCompile(`\(\) (Int|Bool)\s*\n\s*`).ReplaceAllString(out, "() $1 ")
	for _, g := range modelLine.FindAllStringSubmatch(joined, -1) {
		v := strings.TrimSpace(g[3])
		v = strings.TrimSuffix(v, ")")
		if strings.HasPrefix(v, "(- ") {
			v = "-" + strings.TrimSuffix(strings.TrimPrefix(v, "(- "), ")")
		}
		m[g[1]] = strings.TrimSpace(v)
	}
	return m
}

// retryUnknown gives the obligations no solver decided a second, calmer round: two at a time
// with a longer limit.  A query that is decided in seconds on an idle machine can exceed the
// race limit when sixteen functions are being solved at once; an undecided obligation is
// reported as a violation, so it must not depend on the load.
func retryUnknown(obls []*Obligation, secs int, skip map[string]bool) {
	var wg sync.WaitGroup
	sem := make(chan struct{}, 2)
	for _, o := range obls {
		if o.Cover || o.Status != "unknown" || o.File == "" || skip[o.Name] {
			continue
		}
		o := o
		wg.Add(1)
		sem <- struct{}{}
		go func() {
			defer wg.Done()
			defer func() { <-sem }()
			r := race(o.File, secs, secs)
			o.Secs += r.secs
			switch r.status {
			case "unsat":
				o.Status, o.Solver, o.Output = "discharged", r.solver, r.out
				if os.Getenv("GOVC_KEEP") == "" {
					os.Remove(o.File)
				}
			case "sat":
				o.Status, o.Solver, o.Output = "failed", r.solver, r.out
				o.Model = parseModel(r.out)
			}
		}()
	}
	wg.Wait()
}

// discharge solves all obligations of a VC in parallel.
func discharge(vc *VC, dir string, tag string, workers int, quick, slow int) {
	os.MkdirAll(dir, 0o755)
	var wg sync.WaitGroup
	sem := make(chan struct{}, workers)
	for k, o := range vc.obls {
		k, o := k, o
		wg.Add(1)
		sem <- struct{}{}
		go func() {
			defer wg.Done()
			defer func() { <-sem }()
			file := filepath.Join(dir, fmt.Sprintf("%s_%03d.smt2", sanitize(tag), k))
			var b strings.Builder
			b.WriteString("(set-option :produce-models true)\n" + vc.Options + "(set-logic ALL)\n")
			b.WriteString(vc.S.prefix(o.Prefix))
			b.WriteString("\n")
			if o.Cover {
				b.WriteString("(assert " + o.Reach + ")\n")
			} else {
				b.WriteString("(assert " + and(o.Reach, not(o.Goal)) + ")\n")
			}
			b.WriteString("(check-sat)\n(get-model)\n")
			os.WriteFile(file, []byte(b.String()), 0o644)
			r := race(file, quick, slow)
			o.Solver, o.Secs, o.Output, o.File = r.solver, r.secs, r.out, file
			switch {
			case o.Cover && r.status == "sat":
				o.Status = "cover-ok"
			case o.Cover && r.status == "unsat":
				o.Status = "cover-dead"
			case o.Cover:
				o.Status = "cover-unknown"
			case r.status == "unsat":
				o.Status = "discharged"
			case r.status == "sat":
				o.Status = "failed"
				o.Model = parseModel(r.out)
			default:
				o.Status = "unknown"
			}
			if (o.Status == "discharged" || o.Status == "cover-ok") && os.Getenv("GOVC_KEEP") == "" {
				os.Remove(file)
			}
		}()
	}
	wg.Wait()
}

// dischargeBatch: first pass in one incremental z3 process (push/pop per obligation, in
// script order); whatever it does not settle goes to the per-obligation race.
func dischargeBatch(vc *VC, dir string, tag string, workers int, quick, slow int) {
	os.MkdirAll(dir, 0o755)
	if len(vc.obls) == 0 {
		return
	}
	// prefixes are nested; process the obligations in script order
	sort.SliceStable(vc.obls, func(i, j int) bool { return vc.obls[i].Prefix < vc.obls[j].Prefix })
	var b strings.Builder
	b.WriteString(fmt.Sprintf("(set-option :timeout %d)\n%s(set-logic ALL)\n", quick*1000, vc.Options))
	pos := 0
	for k, o := range vc.obls {
		for ; pos < o.Prefix; pos++ {
			b.WriteString(vc.S.lines[pos])
			b.WriteString("\n")
		}
		b.WriteString("(push 1)\n")
		if o.Cover {
			b.WriteString("(assert " + o.Reach + ")\n")
		} else {
			b.WriteString("(assert " + and(o.Reach, not(o.Goal)) + ")\n")
		}
		// every answer is tagged with the number of its query: an answer is never attributed to
		// another obligation, whatever else the solver prints or fails to print
		b.WriteString(fmt.Sprintf("(echo \"@%d\")\n(check-sat)\n(pop 1)\n", k))
	}
	if pat := os.Getenv("GOVC_DUMP"); pat != "" {
		// debugging aid: write the stand-alone query of every obligation whose name contains pat
		for _, o := range vc.obls {
			if strings.Contains(o.Name, pat) {
				os.WriteFile(filepath.Join(os.TempDir(), "govc_dump_"+sanitize(o.Name)+".smt2"), []byte(queryText(vc, o)), 0o644)
			}
		}
	}
	file := filepath.Join(dir, sanitize(tag)+"_batch.smt2")
	os.WriteFile(file, []byte(b.String()), 0o644)
	t0 := time.Now()
	ctx, cancel := context.WithTimeout(context.Background(), time.Duration(quick*len(vc.obls)+30)*time.Second)
	out, _ := exec.CommandContext(ctx, "z3-new", file).CombinedOutput()
	cancel()
	el := time.Since(t0).Seconds()
	if os.Getenv("GOVC_TIMING") != "" && el > 1 {
		fmt.Fprintf(os.Stderr, "timing: %s batch %.1fs (%d obligations)\n", tag, el, len(vc.obls))
	}
	answers := map[int]string{}
	cur := -1
	for _, ln := range strings.Split(string(out), "\n") {
		ln = strings.Trim(strings.TrimSpace(ln), "\"")
		if strings.HasPrefix(ln, "@") {
			cur = -1
			if k, err := strconv.Atoi(ln[1:]); err == nil {
				cur = k
			}
			continue
		}
		if (ln == "sat" || ln == "unsat" || ln == "unknown") && cur >= 0 {
			answers[cur] = ln
			cur = -1
		}
	}
	var rest []*Obligation
	for i, o := range vc.obls {
		a := "unknown"
		if v, ok := answers[i]; ok {
			a = v
		}
		o.Solver, o.Secs = "z3-5.1.0", el/float64(len(vc.obls))
		switch {
		case o.Cover && a == "sat":
			o.Status = "cover-ok"
		case o.Cover && a == "unsat":
			o.Status = "cover-dead"
		case o.Cover:
			o.Status = "cover-unknown" // a vacuity guard is not worth a solver race
		case !o.Cover && a == "unsat":
			o.Status = "discharged"
		default:
			rest = append(rest, o)
		}
	}
	if len(rest) == 0 {
		os.Remove(file)
		return
	}
	sub := &VC{S: vc.S, obls: rest, Options: vc.Options}
	discharge(sub, dir, tag, workers, quick, slow)
}

func slowOf(tier string) int {
	if tier == "thorough" {
		return 60
	}
	return 20
}

// queryText: the stand-alone SMT-LIB query of one obligation.
func queryText(vc *VC, o *Obligation) string {
	var b strings.Builder
	b.WriteString("(set-option :produce-models true)\n" + vc.Options + "(set-logic ALL)\n")
	b.WriteString(vc.S.prefix(o.Prefix))
	b.WriteString("\n")
	if o.Cover {
		b.WriteString("(assert " + o.Reach + ")\n")
	} else {
		b.WriteString("(assert " + and(o.Reach, not(o.Goal)) + ")\n")
	}
	b.WriteString("(check-sat)\n")
	return b.String()
}

// crossCheck (thorough tier): every obligation discharged by the first solver is put to the two
// other solvers as well.  An `unsat` from either confirms it; `sat` from one of them is a
// disagreement between solvers and is reported; neither deciding in time leaves it unconfirmed
// (counted in the evidence, not an alarm: the obligation stays discharged by the first solver).
func crossCheck(vc *VC, dir, tag string, secs, workers int) {
	os.MkdirAll(dir, 0o755)
	var wg sync.WaitGroup
	sem := make(chan struct{}, workers)
	for k, o := range vc.obls {
		if o.Cover || o.Status != "discharged" {
			continue
		}
		k, o := k, o
		wg.Add(1)
		sem <- struct{}{}
		go func() {
			defer wg.Done()
			defer func() { <-sem }()
			file := filepath.Join(dir, fmt.Sprintf("%s_x%03d.smt2", sanitize(tag), k))
			// cvc5 does not accept z3's option names
			txt := queryText(vc, o)
			os.WriteFile(file, []byte(txt), 0o644)
			defer os.Remove(file)
			cfile := file + ".cvc5.smt2"
			var cb strings.Builder
			for _, ln := range strings.Split(txt, "\n") {
				if strings.HasPrefix(ln, "(set-option :smt.") {
					continue
				}
				cb.WriteString(ln + "\n")
			}
			os.WriteFile(cfile, []byte(cb.String()), 0o644)
			defer os.Remove(cfile)
			ctx, cancel := context.WithCancel(context.Background())
			defer cancel()
			ch := make(chan solveResult, 2)
			go func() { ch <- runSolver(ctx, solvers[2], cfile, secs) }()
			go func() { ch <- runSolver(ctx, solvers[1], file, secs) }()
			for i := 0; i < 2; i++ {
				x := <-ch
				if x.status == "unsat" {
					o.Confirm = x.solver
					return
				}
				if x.status == "sat" {
					o.Disagree = x.solver
				}
			}
		}()
	}
	wg.Wait()
}
