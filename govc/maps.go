package main

// Go maps: per map type a family of versioned functions
//   has_v(m, key...)  Bool      val_v_j(m, key...) Int   (j-th value cell)
// updated by define-fun (MapUpdate / delete) or replaced by fresh ones (havoc).

import (
	"fmt"
	"go/types"
	"strings"
)

type mapFam struct {
	name   string
	kl, vl *layout
	nver   int
	init   string
}

func (vc *VC) mapFamily(t *types.Map) *mapFam {
	key := sanitize(types.TypeString(t, func(p *types.Package) string { return p.Name() }))
	if f, ok := vc.mapFams[key]; ok {
		return f
	}
	f := &mapFam{name: key, kl: vc.ls.of(t.Key()), vl: vc.ls.of(t.Elem())}
	vc.mapFams[key] = f
	return f
}

func (f *mapFam) params() (decl string, names []string) {
	var ps []string
	ps = append(ps, "(m Int)")
	names = append(names, "m")
	for i := range f.kl.cells {
		n := fmt.Sprintf("k%d", i)
		ps = append(ps, "("+n+" Int)")
		names = append(names, n)
	}
	return strings.Join(ps, " "), names
}

func (f *mapFam) hasFn(ver string) string { return fmt.Sprintf("MH_%s_%s", f.name, ver) }
func (f *mapFam) valFn(ver string, j int) string {
	return fmt.Sprintf("MV_%s_%s_%d", f.name, ver, j)
}

// fresh declares an unconstrained version.
func (f *mapFam) fresh(vc *VC) string {
	f.nver++
	ver := fmt.Sprintf("h%d", f.nver)
	var sorts []string
	for i := 0; i <= len(f.kl.cells); i++ {
		sorts = append(sorts, "Int")
	}
	vc.S.raw(fmt.Sprintf("(declare-fun %s (%s) Bool)", f.hasFn(ver), strings.Join(sorts, " ")))
	for j := range f.vl.cells {
		vc.S.raw(fmt.Sprintf("(declare-fun %s (%s) Int)", f.valFn(ver, j), strings.Join(sorts, " ")))
	}
	return ver
}

func (f *mapFam) cur(vc *VC, st *State) string {
	if v, ok := st.Maps[f.name]; ok {
		return v
	}
	if f.init == "" {
		f.init = f.fresh(vc)
	}
	st.Maps[f.name] = f.init
	return f.init
}

func keyTerms(k Val) []string {
	out := make([]string, len(k))
	for i, c := range k {
		out[i] = b2i(c)
	}
	return out
}

func (f *mapFam) has(ver, m string, k Val) string {
	return sx(f.hasFn(ver), append([]string{m}, keyTerms(k)...)...)
}

func (f *mapFam) get(ver, m string, k Val) Val {
	out := make(Val, len(f.vl.cells))
	for j, ci := range f.vl.cells {
		t := sx(f.valFn(ver, j), append([]string{m}, keyTerms(k)...)...)
		if ci.kind == kBool {
			out[j] = bc(i2b(t))
		} else {
			out[j] = ic(t)
		}
	}
	return out
}

func (f *mapFam) keyEq(m string, k Val, names []string) string {
	cs := []string{eq(names[0], m)}
	for i, t := range keyTerms(k) {
		cs = append(cs, eq(names[i+1], t))
	}
	return and(cs...)
}

// update: m[k] = v (present=true) or delete(m,k) (present=false)
func (f *mapFam) update(vc *VC, st *State, m string, k Val, v Val, present bool) {
	old := f.cur(vc, st)
	f.nver++
	ver := fmt.Sprintf("u%d", f.nver)
	decl, names := f.params()
	hit := f.keyEq(m, k, names)
	p := "false"
	if present {
		p = "true"
	}
	vc.S.raw(fmt.Sprintf("(define-fun %s (%s) Bool %s)", f.hasFn(ver), decl, ite(hit, p, sx(f.hasFn(old), names...))))
	for j := range f.vl.cells {
		nv := "0"
		if present {
			nv = b2i(v[j])
		}
		vc.S.raw(fmt.Sprintf("(define-fun %s (%s) Int %s)", f.valFn(ver, j), decl, ite(hit, nv, sx(f.valFn(old, j), names...))))
	}
	st.Maps[f.name] = ver
}

func (f *mapFam) merge(vc *VC, conds, vers []string) string {
	f.nver++
	ver := fmt.Sprintf("j%d", f.nver)
	decl, names := f.params()
	body := sx(f.hasFn(vers[len(vers)-1]), names...)
	for i := len(vers) - 2; i >= 0; i-- {
		body = ite(conds[i], sx(f.hasFn(vers[i]), names...), body)
	}
	vc.S.raw(fmt.Sprintf("(define-fun %s (%s) Bool %s)", f.hasFn(ver), decl, body))
	for j := range f.vl.cells {
		body := sx(f.valFn(vers[len(vers)-1], j), names...)
		for i := len(vers) - 2; i >= 0; i-- {
			body = ite(conds[i], sx(f.valFn(vers[i], j), names...), body)
		}
		vc.S.raw(fmt.Sprintf("(define-fun %s (%s) Int %s)", f.valFn(ver, j), decl, body))
	}
	return ver
}

func (vc *VC) havocMaps(st *State) {
	for k, f := range vc.mapFams {
		st.Maps[k] = f.fresh(vc)
	}
}

// length of a map in a given version: an uninterpreted function of the map reference
func (f *mapFam) lenTerm(vc *VC, st *State, m string) string {
	ver := f.cur(vc, st)
	fn := fmt.Sprintf("ML_%s_%s", f.name, ver)
	vc.S.declFun(fn, []string{"Int"}, "Int")
	t := sx(fn, m)
	key := "maplen:" + t
	if !vc.S.decl[key] {
		vc.S.decl[key] = true
		vc.S.raw("(assert (and (<= 0 " + t + ") (<= " + t + " 1099511627776)))")
	}
	return t
}
