package main

import (
	"fmt"
	"go/ast"
	"go/types"
	"strings"

	"golang.org/x/tools/go/ssa"
)

func canonName(s string) string {
	s = strings.ReplaceAll(s, "github.com/jhalter/mobius/internal/mobius.", "mobius.")
	s = strings.ReplaceAll(s, "github.com/jhalter/mobius/hotline.", "hotline.")
	if k := strings.Index(s, "["); k >= 0 && !strings.HasPrefix(s, "(") {
		s = s[:k]
	}
	return s
}

func (x *Exec) calleeName(c *ssa.CallCommon) string {
	if c.IsInvoke() {
		recv := c.Value.Type()
		return canonName("(" + types.TypeString(recv, nil) + ")." + c.Method.Name())
	}
	switch f := c.Value.(type) {
	case *ssa.Function:
		if f.Origin() != nil {
			return canonName(f.Origin().String())
		}
		return canonName(f.String())
	case *ssa.Builtin:
		return "builtin." + f.Name()
	case *ssa.MakeClosure:
		return canonName(f.Fn.(*ssa.Function).String())
	}
	return "dynamic"
}

func (x *Exec) call(fr *frame, i *ssa.Call, st *State, r string) (Val, string) {
	return x.callCommon(fr, i, &i.Call, st, r, false)
}

func (x *Exec) goStmt(fr *frame, i *ssa.Go, st *State, r string) {
	name := x.calleeName(&i.Call)
	var args []Val
	for _, a := range i.Call.Args {
		args = append(args, x.val(fr, a))
	}
	cs := &CallSite{Instr: i, Fn: fr.fn, Depth: fr.depth, Callee: name, Reach: r, Args: args, ArgVals: i.Call.Args, IsGo: true, Pos: i.Pos(), StBefore: st.clone()}
	cs.Class = "spawn"
	if x.trace != nil {
		x.trace.add(cs)
	}
	if fr.top && fr.c != nil {
		x.siteAsserts(fr, cs, st, r)
	}
	cs.Mark = x.vc.S.mark()
	st.Ghost["effects"] = x.vc.S.def("g_effects", ic(add(ghost(st, "effects"), "1"))).T
}

// callCommon: the call proper, then the environment-failure bookkeeping of the streams plug-in
// (a listed callee that returns a non-nil error raises the ghost flag envfail).
func (x *Exec) callCommon(fr *frame, ins ssa.CallInstruction, c *ssa.CallCommon, st *State, r string, isDefer bool) (Val, string) {
	res, r2 := x.callCommon0(fr, ins, c, st, r, isDefer)
	if fr.top && fr.c != nil && x.lastSite != nil && x.lastSite.Instr == ins {
		x.siteAssumes(fr, x.lastSite, res, st, r2)
	}
	if x.envCalls != nil {
		rt := c.Signature().Results()
		if name := x.calleeName(c); x.envCalls[name] && rt.Len() > 0 && isErrType(rt.At(rt.Len()-1).Type()) && len(res) >= 3 {
			raise(x, st, "envfail", not(eq(res[len(res)-3].T, "0")))
		}
	}
	return res, r2
}

func (x *Exec) callCommon0(fr *frame, ins ssa.CallInstruction, c *ssa.CallCommon, st *State, r string, isDefer bool) (Val, string) {
	name := x.calleeName(c)
	var args []Val
	var argVals []ssa.Value
	if c.IsInvoke() {
		args = append(args, x.val(fr, c.Value))
		argVals = append(argVals, c.Value)
	}
	for _, a := range c.Args {
		args = append(args, x.val(fr, a))
		argVals = append(argVals, a)
	}
	if _, isBuiltin := c.Value.(*ssa.Builtin); !isBuiltin {
		// only a callee that may write memory can make an argument reachable from memory
		if x.callMayWrite(ins) {
			for _, a := range args {
				x.vc.escape(a)
			}
		}
	} else if b := c.Value.(*ssa.Builtin); b.Name() == "append" && len(args) > 1 {
		// the appended elements are stored in the result
		if _, isStr := c.Args[1].Type().Underlying().(*types.Basic); !isStr {
			x.vc.escape(Val{args[1][0]})
		}
	}
	resT := c.Signature().Results()
	cs := &CallSite{Instr: ins, Fn: fr.fn, Depth: fr.depth, Callee: name, Reach: r, Args: args, ArgVals: argVals, IsDefer: isDefer, Pos: ins.Pos(), StBefore: st.clone()}
	if x.trace != nil {
		x.trace.add(cs)
	}
	x.lastSite = cs
	cs.Class = effectClass(name)
	if cs.Class != "" && mutatingClass(cs.Class) {
		st.Ghost["effects"] = x.vc.S.def("g_effects", ic(add(ghost(st, "effects"), "1"))).T
	}
	// site assertions of the top-level contract
	if fr.top && fr.c != nil {
		x.siteAsserts(fr, cs, st, r)
	}
	var res Val
	defer func() { cs.Mark = x.vc.S.mark() }()
	// accesses to lock-guarded fields through calls: atomic operations and delete()
	if len(c.Args) > 0 && (strings.HasPrefix(name, "(*sync/atomic.") || name == "builtin.delete" || name == "builtin.len") {
		x.guardedAccess(fr, ins, c.Args[0], st, r, name != "builtin.len")
	}
	if m, ok := x.over[name]; ok {
		res, r = m(x, fr, ins, c, args, st, r)
		cs.Res = res
		return res, r
	}
	if x.opaque[name] {
		res = x.opaqueCall(name, resT, st, r)
		cs.Res = res
		return res, r
	}
	if cs.Class != "" && x.over != nil {
		// mode A: an effectful callee is not looked into; its precondition is still the caller's duty
		if f, ok := c.Value.(*ssa.Function); ok && fr.top {
			if ct := x.eng.contracts[x.eng.fnKey(f)]; ct != nil && len(ct.Requires) > 0 {
				before := st.clone()
				env := x.calleeEnv(f, ct, args, &before, &before)
				for k, rq := range ct.Requires {
					x.vc.oblige(fmt.Sprintf("%s#pre-at-call:%s#%d.%d", x.eng.fnKey(fr.fn), x.eng.fnKey(f), cs.Ord, k+1), "pre-at-call", r, x.evalBool(env, rq.Expr), x.eng.pos(cs.Pos))
				}
			}
		}
		res = x.havocCall(name, resT, args, argVals, st, r)
		cs.Res = res
		return res, r
	}
	if c.IsInvoke() {
		// assumed contracts of library interfaces (fs.DirEntry, ...)
		if m, ok := stdModels[name]; ok {
			res, r = m(x, fr, ins, c, args, st, r)
			cs.Res = res
			return res, r
		}
	}
	switch f := c.Value.(type) {
	case *ssa.Builtin:
		res, r = x.builtin(fr, ins, f, c, args, st, r)
		cs.Res = res
		return res, r
	case *ssa.MakeClosure:
		fn := f.Fn.(*ssa.Function)
		var binds []Val
		for _, b := range f.Bindings {
			binds = append(binds, x.val(fr, b))
		}
		if x.canInline(fn, fr.depth) {
			res, r = x.inline(fn, args, binds, st, r, fr.depth+1)
			cs.Inlined = true
			cs.Res = res
			return res, r
		}
	case *ssa.Function:
		fn := f
		if m, ok := stdModels[name]; ok {
			res, r = m(x, fr, ins, c, args, st, r)
			cs.Res = res
			return res, r
		}
		if ct := x.eng.contracts[x.eng.fnKey(fn)]; ct != nil && len(ct.Ensures)+len(ct.Requires)+len(ct.Modifies) > 0 && fn != x.top && !x.noModular {
			res, r = x.callContract(fr, cs, fn, ct, args, st, r)
			cs.Res = res
			return res, r
		}
		if fn.Pkg != nil && strings.HasPrefix(fn.Pkg.Pkg.Path(), modPath) && x.canInline(fn, fr.depth) {
			res, r = x.inline(fn, args, nil, st, r, fr.depth+1)
			cs.Inlined = true
			cs.Res = res
			return res, r
		}
	}
	// unknown callee: havoc
	res = x.havocCall(name, resT, args, argVals, st, r)
	cs.Res = res
	return res, r
}

func (x *Exec) canInline(fn *ssa.Function, depth int) bool {
	if len(fn.Blocks) == 0 || depth >= x.maxDepth {
		return false
	}
	for _, s := range x.stack {
		if s == fn {
			return false
		}
	}
	if noInline[canonName(fn.String())] {
		return false
	}
	return true
}

func (x *Exec) inline(fn *ssa.Function, args []Val, binds []Val, st *State, r string, depth int) (Val, string) {
	res, out, outReach, _ := x.run(fn, nil, args, binds, *st, r, depth, false)
	*st = out
	var flat Val
	for _, v := range res {
		flat = append(flat, v...)
	}
	if outReach == "false" {
		// never returns (panics on all paths)
		l := x.vc.ls.of(fn.Signature.Results())
		return zeroVal(l), "false"
	}
	return flat, outReach
}

// havocCall models a callee that has neither a model, a contract nor an inlinable body.
func (x *Exec) havocCall(name string, resT *types.Tuple, args []Val, argVals []ssa.Value, st *State, r string) Val {
	if pureFuncs[name] || strings.HasPrefix(name, "pure:") {
		return x.pureCall(name, resT, args, st, r)
	}
	hm := ""
	if !isNoEffect(name) {
		x.vc.note("havoc: call to %s (no model/contract): memory and maps havocked", name)
		na := x.vc.S.freshConst("alloc_call", false)
		x.vc.S.fact(r, sx(">=", na, st.Alloc))
		x.vc.allocP[na] = []string{st.Alloc}
		st.Alloc = na
		// a callee cannot touch an object whose address it was never given and that is not
		// reachable from memory (allocated here, not escaped)
		var keep []string
		for _, a := range x.vc.allocs {
			if !x.vc.escaped[a.ref] {
				keep = append(keep, eq("r", a.ref))
			}
		}
		hm = x.vc.havocMem(st, or(keep...))
		x.vc.havocMaps(st)
	} else {
		// may allocate (results are fresh objects) but does not write existing memory
		na := x.vc.S.freshConst("alloc_call", false)
		x.vc.S.fact(r, sx(">=", na, st.Alloc))
		old := st.Alloc
		x.vc.allocP[na] = []string{old}
		st.Alloc = na
		hm = x.vc.havocFrame(st, old)
	}
	res := x.havocVal(resT, st, r, "call_"+shortName(name))
	x.resultElemFacts(hm, resT, res, r)
	return res
}

// resultElemFacts: a slice of integers a callee returns holds values of its element type (the
// bytes of a []byte are bytes).  Stated on the memory the call left behind.
func (x *Exec) resultElemFacts(hm string, resT *types.Tuple, res Val, r string) {
	if hm == "" || resT == nil {
		return
	}
	for k := 0; k < resT.Len(); k++ {
		base := 0
		if resT.Len() > 1 {
			base = x.vc.ls.tupleOff(resT, k)
		}
		x.walkRefs(resT.At(k).Type(), base, func(cell int, ft types.Type) {
			u, ok := ft.Underlying().(*types.Slice)
			if !ok || cell+2 >= len(res) {
				return
			}
			if el := x.vc.ls.of(u.Elem()); len(el.cells) == 1 && el.cells[0].kind == kInt && el.cells[0].lo != "" {
				x.sliceElemFacts(hm, u.Elem(), res[cell].T, res[cell+1].T, res[cell+2].T, and(r, not(eq(res[cell].T, "0"))), 0)
			}
		})
	}
}

func shortName(n string) string {
	if k := strings.LastIndex(n, "."); k >= 0 {
		n = n[k+1:]
	}
	return sanitize(n)
}

// pureCall: the result is an uninterpreted function of the argument cells.
func (x *Exec) pureCall(name string, resT *types.Tuple, args []Val, st *State, r string) Val {
	l := x.vc.ls.of(resT)
	var as []string
	var sorts []string
	for _, a := range args {
		for _, c := range a {
			as = append(as, b2i(c))
			sorts = append(sorts, "Int")
		}
	}
	out := make(Val, len(l.cells))
	for j, ci := range l.cells {
		fn := fmt.Sprintf("pf_%s_%d", sanitize(name), j)
		res := "Int"
		if ci.kind == kBool {
			res = "Bool"
		}
		x.vc.S.declFun(fn, sorts, res)
		var t string
		if len(as) == 0 {
			t = fn
		} else {
			t = sx(fn, as...)
		}
		out[j] = Cell{T: t, B: ci.kind == kBool}
	}
	out = x.vc.S.defVal("pure_"+shortName(name), out)
	x.typeFactsNoRef(r, resT, out)
	return out
}

// typeFactsNoRef: like typeFacts but without the allocation bound (pure
// results such as strings carry no references).
func (x *Exec) typeFactsNoRef(reach string, t types.Type, v Val) {
	l := x.vc.ls.of(t)
	for i, ci := range l.cells {
		c := v[i].T
		switch ci.kind {
		case kInt:
			if ci.lo != "" {
				x.vc.S.fact(reach, and(sx("<=", ci.lo, c), sx("<=", c, ci.hi)))
			}
		case kStr:
			x.vc.S.fact(reach, sx("<=", "0", sx("strlen", c)))
		}
	}
}

// ---- builtins -----------------------------------------------------------------

func (x *Exec) builtin(fr *frame, ins ssa.CallInstruction, b *ssa.Builtin, c *ssa.CallCommon, args []Val, st *State, r string) (Val, string) {
	ls := x.vc.ls
	switch b.Name() {
	case "len":
		switch t := c.Args[0].Type().Underlying().(type) {
		case *types.Slice:
			return Val{args[0][2]}, r
		case *types.Basic:
			return Val{ic(sx("strlen", args[0][0].T))}, r
		case *types.Array:
			return Val{ic(itoa(t.Len()))}, r
		case *types.Pointer:
			return Val{ic(itoa(t.Elem().Underlying().(*types.Array).Len()))}, r
		case *types.Map:
			return Val{ic(x.vc.mapFamily(t).lenTerm(x.vc, st, args[0][0].T))}, r
		case *types.Chan:
			n := x.vc.S.freshConst("chanlen", false)
			x.vc.S.fact(r, sx("<=", "0", n))
			return Val{ic(n)}, r
		}
	case "cap":
		switch t := c.Args[0].Type().Underlying().(type) {
		case *types.Slice:
			return Val{args[0][3]}, r
		case *types.Array:
			return Val{ic(itoa(t.Len()))}, r
		}
	case "copy":
		dst, src := args[0], args[1]
		var n string
		if isString(c.Args[1].Type()) {
			s := src[0].T
			n = x.vc.S.def("ncopy", ic(ite(sx("<", dst[2].T, sx("strlen", s)), dst[2].T, sx("strlen", s)))).T
			cond := and(eq("r", dst[0].T), sx("<=", dst[1].T, "o"), sx("<", "o", add(dst[1].T, n)))
			st.Mem = x.vc.defMem(ite(cond, sx("strat", s, sub("o", dst[1].T)), sel(st.Mem, "r", "o")))
			return Val{ic(n)}, r
		}
		es := ls.size(c.Args[0].Type().Underlying().(*types.Slice).Elem())
		n = x.vc.S.def("ncopy", ic(ite(sx("<", dst[2].T, src[2].T), dst[2].T, src[2].T))).T
		x.vc.copyCells(st, dst[0].T, dst[1].T, src[0].T, src[1].T, mulc(n, es))
		return Val{ic(n)}, r
	case "append":
		return x.appendBuiltin(c, args, st, r), r
	case "min", "max":
		op := "<"
		if b.Name() == "max" {
			op = ">"
		}
		v := args[0][0].T
		for _, a := range args[1:] {
			v = ite(sx(op, a[0].T, v), a[0].T, v)
		}
		return Val{ic(v)}, r
	case "delete":
		mt := c.Args[0].Type().Underlying().(*types.Map)
		fam := x.vc.mapFamily(mt)
		fam.update(x.vc, st, args[0][0].T, args[1], nil, false)
		return Val{}, r
	case "clear":
		// clear(slice) zeroes the elements; clear(map) is not modelled (reported, not ignored)
		if sl, ok := c.Args[0].Type().Underlying().(*types.Slice); ok {
			es := ls.size(sl.Elem())
			a := args[0]
			n := mulc(a[2].T, es)
			cond := and(eq("r", a[0].T), sx("<=", a[1].T, "o"), sx("<", "o", add(a[1].T, n)))
			st.Mem = x.vc.defMem(ite(cond, "0", sel(st.Mem, "r", "o")))
			return nil, r
		}
		panic(unsupported("builtin clear on " + typeStr(c.Args[0].Type())))
	case "print", "println", "close":
		return Val{}, r
	case "recover":
		return x.havocVal(types.NewInterfaceType(nil, nil), st, r, "recover"), r
	case "ssa:wrapnilchk":
		return args[0], r
	}
	panic(unsupported("builtin " + b.Name()))
}

// append is modelled as always reallocating (assumption: no observable sharing
// of spare capacity); the result has len = cap = old len + appended len.
func (x *Exec) appendBuiltin(c *ssa.CallCommon, args []Val, st *State, r string) Val {
	ls := x.vc.ls
	s := args[0]
	es := ls.size(c.Args[0].Type().Underlying().(*types.Slice).Elem())
	var addLen string
	var srcRead func(o string) string // o = cell offset within the appended part
	if isString(c.Args[1].Type()) {
		str := args[1][0].T
		addLen = sx("strlen", str)
		srcRead = func(o string) string { return sx("strat", str, o) }
	} else {
		t := args[1]
		addLen = t[2].T
		mem := st.Mem
		srcRead = func(o string) string { return x.vc.read(mem, t[0].T, add(t[1].T, o)) }
	}
	newLen := x.vc.S.def("applen", ic(add(s[2].T, addLen))).T
	oldCells := mulc(s[2].T, es)
	mem := st.Mem
	ref := x.vc.allocWith(st, "append", mulc(newLen, es), func(o string) string {
		return ite(sx("<", o, oldCells), x.vc.read(mem, s[0].T, add(s[1].T, o)), srcRead(sub(o, oldCells)))
	})
	x.vc.noteAlloc(ref, c.Args[0].Type().Underlying().(*types.Slice).Elem())
	return Val{ic(ref), ic("0"), ic(newLen), ic(newLen)}
}

// ---- site assertions ------------------------------------------------------------

func (x *Exec) siteAsserts(fr *frame, cs *CallSite, st *State, r string) {
	covered := false
	for k, sa := range fr.c.Asserts {
		if sa.Assume || sa.Store || !calleeMatch(sa.Callee, cs.Callee) {
			continue
		}
		if sa.Ord != 0 && sa.Ord != cs.Ord {
			continue
		}
		if x.assertHits == nil {
			x.assertHits = map[int]int{}
		}
		x.assertHits[k]++
		if !covered && sa.Cl.Text != "false" {
			// vacuity guard: the site must be reachable under the hypotheses collected so far
			// (an assertion at a site the model cannot reach proves nothing)
			covered = true
			x.vc.cover(fmt.Sprintf("%s#cover:site:%s#%d", x.eng.fnKey(fr.fn), sa.Callee, cs.Ord), r, x.eng.pos(cs.Pos))
		}
		env := x.specEnv(fr, st, cs.Instr.Block(), 0)
		env.site = cs
		for j, a := range cs.Args {
			var ty types.Type
			if j < len(cs.ArgVals) {
				ty = cs.ArgVals[j].Type()
			}
			env.names[fmt.Sprintf("arg%d", j)] = svOfVal(a, ty)
		}
		t, missing := x.evalSiteBool(env, sa.Cl.Expr)
		if missing != "" {
			// the assertion speaks about an earlier call (callres / callarg) that no longer exists on
			// the way to this site: what it demands cannot hold here
			x.vc.note("site assertion at %s in %s: %s", sa.Callee, x.eng.fnKey(fr.fn), missing)
			t = "false"
		}
		x.vc.oblige(fmt.Sprintf("%s#site:%s#%d.%d", x.eng.fnKey(fr.fn), sa.Callee, cs.Ord, k+1), "site", r, t, x.eng.pos(cs.Pos))
	}
}

// evalSiteBool evaluates a site assertion; a reference to a call that does not occur before the
// site is reported instead of aborting the whole function.
func (x *Exec) evalSiteBool(env *Env, e ast.Expr) (t string, missing string) {
	defer func() {
		if rec := recover(); rec != nil {
			if se, ok := rec.(specErr); ok && (strings.HasPrefix(string(se), "callres: no call") || strings.HasPrefix(string(se), "callarg: no call")) {
				t, missing = "false", string(se)
				return
			}
			panic(rec)
		}
	}()
	return x.evalBool(env, e), ""
}

// siteAssumes: `after call C assume E` -- E (over arg0.., res0..) is taken as a fact about
// what the environment returned at this site; every use is listed among the assumptions.
func (x *Exec) siteAssumes(fr *frame, cs *CallSite, res Val, st *State, r string) {
	for k, sa := range fr.c.Asserts {
		if !sa.Assume || sa.Store || !calleeMatch(sa.Callee, cs.Callee) {
			continue
		}
		if sa.Ord != 0 && sa.Ord != cs.Ord {
			continue
		}
		if x.assertHits == nil {
			x.assertHits = map[int]int{}
		}
		x.assertHits[k]++
		env := x.specEnv(fr, st, cs.Instr.Block(), 0)
		env.site = cs
		env.freshFrom = cs.StBefore.Alloc
		for j, a := range cs.Args {
			var ty types.Type
			if j < len(cs.ArgVals) {
				ty = cs.ArgVals[j].Type()
			}
			env.names[fmt.Sprintf("arg%d", j)] = svOfVal(a, ty)
		}
		rt := cs.Instr.Common().Signature().Results()
		for j := 0; j < rt.Len(); j++ {
			off := x.vc.ls.tupleOff(rt, j)
			if rt.Len() == 1 {
				off = 0
			}
			n := x.vc.ls.size(rt.At(j).Type())
			if off+n <= len(res) {
				env.names[fmt.Sprintf("res%d", j)] = svOfVal(res[off:off+n], rt.At(j).Type())
			}
		}
		x.vc.S.fact(r, x.evalBool(env, sa.Cl.Expr))
		x.vc.note("assumed after the call to %s in %s: %s", cs.Callee, x.eng.fnKey(fr.fn), sa.Cl.Text)
		// the assumption must not make the continuation unreachable
		x.vc.cover(fmt.Sprintf("%s#cover:assume:%s#%d", x.eng.fnKey(fr.fn), sa.Callee, cs.Ord), r, x.eng.pos(cs.Pos))
	}
}

func calleeMatch(pat, name string) bool {
	if pat == name {
		return true
	}
	if strings.HasSuffix(pat, "*") {
		return strings.HasPrefix(name, strings.TrimSuffix(pat, "*"))
	}
	// allow omitting the package qualifier
	return strings.HasSuffix(name, "."+pat) || strings.HasSuffix(name, ")."+pat)
}

// ---- modular call: assert pre, havoc frame, assume post --------------------------

func (x *Exec) callContract(fr *frame, cs *CallSite, fn *ssa.Function, ct *Contract, args []Val, st *State, r string) (Val, string) {
	S := x.vc.S
	before := st.clone()
	env := x.calleeEnv(fn, ct, args, &before, &before)
	for k, rq := range ct.Requires {
		t := x.evalBool(env, rq.Expr)
		switch {
		case fr.top && x.preTaggedOnly && rq.Tag == "":
			// mode A (a handler walked for one property): a general precondition of the callee
			// (a length bound, a well-formedness invariant of its input) is not this property's
			// obligation; it is assumed here and reported as such
			x.vc.note("assumed at the call in %s: general precondition %d of %s (checked where that function's callers are verified for its own property)", x.eng.fnKey(fr.fn), k+1, x.eng.fnKey(fn))
		case fr.top:
			x.vc.oblige(fmt.Sprintf("%s#pre-at-call:%s#%d.%d", x.eng.fnKey(fr.fn), x.eng.fnKey(fn), cs.Ord, k+1), "pre-at-call", r, t, x.eng.pos(cs.Pos))
		}
		S.fact(r, t)
	}
	// frame
	na := S.freshConst("alloc_call", false)
	S.fact(r, sx(">=", na, st.Alloc))
	x.vc.allocP[na] = []string{st.Alloc}
	st.Alloc = na
	keep := sx("<", "r", before.Alloc)
	if len(ct.Modifies) > 0 {
		var mods []string
		for _, m := range ct.Modifies {
			mods = append(mods, x.evalLoc(env, m.Expr))
		}
		keep = and(keep, not(or(mods...)))
	}
	var base string
	pure := len(ct.Modifies) == 1 && ct.Modifies[0].Text == "nothing"
	switch {
	case pure:
		base = x.vc.havocFrame(st, before.Alloc)
	case len(ct.Modifies) == 0:
		// no frame given: everything may have changed
		base = x.vc.havocMem(st, "false")
		x.vc.havocMaps(st)
	default:
		base = x.vc.havocMem(st, keep)
	}
	if _, ok := ct.Raw["modifies_maps"]; ok {
		x.vc.havocMaps(st)
	}
	// whatever the callee stored in a field it may modify is a well-typed value of that field's
	// type (Go's type system), including what a stored slice or pointer refers to
	if !pure && len(ct.Modifies) > 0 {
		x.refBound = st.Alloc
		for _, m := range ct.Modifies {
			if sel, ok := m.Expr.(*ast.SelectorExpr); ok {
				func() {
					defer func() {
						if e := recover(); e != nil {
							if _, ok := e.(specErr); !ok {
								panic(e)
							}
						}
					}()
					bv := env.eval(sel.X)
					ref, off, ft := env.fieldAddr(bv, sel.Sel.Name)
					x.validFacts(st.Mem, ft, ref, off, r, 2)
				}()
			}
		}
		x.refBound = ""
	}
	resT := fn.Signature.Results()
	res := x.havocVal(resT, st, r, "res_"+fn.Name())
	// results that are fresh objects are well typed in the new memory (what they refer to may
	// itself have been allocated by the callee)
	{
		x.refBound = st.Alloc
		defer func() { x.refBound = "" }()
		off := 0
		for j := 0; j < resT.Len(); j++ {
			rt := resT.At(j).Type()
			n := x.vc.ls.size(rt)
			v := res[off : off+n]
			off += n
			fresh := and(r, sx(">=", v0(v), before.Alloc))
			switch u := rt.Underlying().(type) {
			case *types.Slice:
				x.sliceElemFacts(base, u.Elem(), v[0].T, v[1].T, v[2].T, fresh, 1)
			case *types.Pointer:
				x.validFacts(base, u.Elem(), v[0].T, v[1].T, fresh, 2)
			}
		}
	}
	env2 := x.calleeEnv(fn, ct, args, st, &before)
	off := 0
	for j := 0; j < resT.Len(); j++ {
		n := x.vc.ls.size(resT.At(j).Type())
		if j < len(ct.Results) {
			env2.names[ct.Results[j]] = svOfVal(res[off:off+n], resT.At(j).Type())
		}
		off += n
	}
	for _, en := range ct.Ensures {
		// a clause that cannot be evaluated in the caller's context (it refers to the callee's
		// internals) is not assumed: assuming less is sound
		func() {
			defer func() {
				if e := recover(); e != nil {
					if _, ok := e.(specErr); !ok {
						panic(e)
					}
				}
			}()
			S.fact(r, x.evalBool(env2, en.Expr))
		}()
	}
	return res, r
}

func v0(v Val) string {
	if len(v) == 0 {
		return "0"
	}
	return v[0].T
}

// opaqueCall: a constructor-like callee that is verified on its own; here its result is a
// fresh value and existing memory is unchanged.
func (x *Exec) opaqueCall(name string, resT *types.Tuple, st *State, r string) Val {
	na := x.vc.S.freshConst("alloc_call", false)
	x.vc.S.fact(r, sx(">=", na, st.Alloc))
	old := st.Alloc
	x.vc.allocP[na] = []string{old}
	st.Alloc = na
	x.vc.havocFrame(st, old)
	return x.havocVal(resT, st, r, "call_"+shortName(name))
}
