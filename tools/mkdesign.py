#!/usr/bin/env python3
# tools/mkdesign.py: regenerates the generated blocks of DESIGN.md (per-property summary from
# govc/plans.go + evidence/*.json, seeded-change table from seeded/*/meta.json, must-fail corpus list)
import json, subprocess, glob, os, re
root='/verif'
plans=json.loads(subprocess.run([root+'/bin/govc','plans'],capture_output=True,text=True).stdout)
props={json.loads(l)['id']:json.loads(l) for l in open(root+'/properties.jsonl')}
man={c['property_id']:c for c in json.load(open(root+'/MANIFEST.json'))['checks']}
out=[]
for pid in sorted(props):
    p=props[pid]; pl=plans.get(pid)
    out.append(f"### {pid} {p['title']}\n")
    if not pl:
        out.append("not claimed.\n"); continue
    ev={}
    try: ev=json.load(open(f'{root}/evidence/{pid}.json'))
    except Exception: pass
    c=ev.get('coverage',{})
    plug=sorted({it['Plugin'] or 'function contract (mode F)' for it in pl['Items']})
    out.append(f"*Machinery:* {', '.join(plug)}.  *Last run:* {c.get('obligations','?')} obligations, {c.get('discharged','?')} discharged, "
               f"{len(c.get('known_findings') or [])} known findings, {len(c.get('functions_under_contract') or [])} functions under contract, {ev.get('wall_s','?')} s ({ev.get('tier','?')}).\n")
    out.append("Decided (each line is a group of named obligations that must be discharged on every run):\n")
    for d in pl['Decided'] or []: out.append(f"* {d}")
    if pl['Undecided']:
        out.append("\nNot decided (no obligation exists; a change that only breaks these is not detected):\n")
        for d in pl['Undecided']: out.append(f"* {d}")
    if pl['Assumptions']:
        out.append("\nProperty-specific assumptions:\n")
        for d in pl['Assumptions']: out.append(f"* {d}")
    fns=[it['Func'] for it in pl['Items']]
    out.append("\nFunctions of the plan: " + ", ".join(f"`{f}`" for f in fns) + "\n")
props_md="\n".join(out)

rows=["| seed | what the change does | needs | check result | first failing obligations |","|---|---|---|---|---|"]
for d in sorted(glob.glob(root+'/seeded/*')):
    m=json.load(open(d+'/meta.json'))
    s=re.sub(r'\s+',' ',m.get('summary',''))[:260]
    n=re.sub(r'\s+',' ',m.get('needs',''))[:160]
    v=", ".join(x.replace('.json','') for x in (m.get('violations') or [])[:2])
    rows.append(f"| {os.path.basename(d)} | {s} | {n} | {m.get('check_result','')} | {v} |")
seeds_md="\n".join(rows)

mrows=[]
for d in sorted(glob.glob(root+'/selftest/mutants/*')):
    mrows.append(f"* {os.path.basename(d)}: " + ", ".join(sorted(os.path.basename(x)[:-5] for x in glob.glob(d+'/*.diff'))))
mut_md="\n".join(mrows)

s=open(root+'/DESIGN.md').read()
def put(name,txt):
    global s
    a=f"<!-- BEGIN GENERATED {name} -->"; b=f"<!-- END GENERATED {name} -->"
    i=s.index(a)+len(a); j=s.index(b)
    s=s[:i]+"\n"+txt+"\n"+s[j:]
put('properties',props_md); put('seeds',seeds_md); put('mutants',mut_md)
open(root+'/DESIGN.md','w').write(s)
print("DESIGN.md regenerated blocks")
