#!/usr/bin/env python3
# tools/round.py <seed dir root e.g. /tmp/seed3> <suffix e.g. v4> [Cxx ...]: confirms each finished seed
# (tools/confirm_seed.sh), stores it as seeded/<Cxx>_<suffix>, runs the property's check on it and
# writes meta.json with the result.
import sys,os,subprocess,json,glob
root=os.path.dirname(os.path.dirname(os.path.abspath(__file__)))
src,suffix=sys.argv[1],sys.argv[2]
only=sys.argv[3:]
for d in sorted(glob.glob(src+'/C*')):
    prop=os.path.basename(d)
    if only and prop not in only: continue
    name=f"{prop}_{suffix}"
    if not os.path.exists(d+'/patch.diff') or not os.path.exists(d+'/meta.json'): 
        print(name,'not ready'); continue
    if not os.path.exists(f"{root}/seeded/{name}/patch.diff"):
        p=subprocess.run([root+'/tools/confirm_seed.sh',d,name],capture_output=True,text=True)
        res=[l for l in p.stdout.splitlines() if l.startswith('RESULT')]
        print(name,'confirm:',res[-1] if res else p.stdout[-300:]+p.stderr[-300:])
        if not os.path.exists(f"{root}/seeded/{name}/patch.diff"): continue
    sd=f"{root}/seeded/{name}"
    p=subprocess.run([root+'/selftest/mutant.sh',prop,sd+'/patch.diff'],capture_output=True,text=True)
    lines=[l for l in p.stdout.splitlines() if l.startswith('VIOLATION')]
    am=json.load(open(sd+'/agent_meta.json'))
    meta={"property":prop,"summary":am.get("summary",""),"needs":am.get("needs",""),"files":am.get("files",[]),"functions":am.get("functions",[]),
      "confirmed":"tools/confirm_seed.sh: in a scratch worktree of /repo HEAD the pinned suite passes with patch.diff applied, the demonstration (demo_test.go at DEMO_PATH.txt, go test -run Seed) fails with it and passes without it",
      "round":int(suffix[1:])-1}
    meta["check_result"]="detected" if p.returncode==0 else ("missed" if p.returncode==1 else "error")
    meta["violations"]=[l.split('replay=')[1].split()[0].split('/')[-1] for l in lines][:6]
    json.dump(meta,open(sd+'/meta.json','w'),indent=1)
    print(name, meta["check_result"], meta["violations"][:2], flush=True)
