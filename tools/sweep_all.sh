#!/bin/sh
# tools/sweep_all.sh: builds govc if needed, then runs every seeded change and every stored mutant
# against the check of its property (three + two shards side by side), and after that, with nothing
# else running, the behaviour-preserving corpus against all checks.
# Meant for `vp run -- tools/sweep_all.sh` (works from any snapshot of /verif; /repo is only read).
cd "$(dirname "$0")/.."
./check C09 quick >/dev/null 2>&1 || true
echo "== seeds and mutants"
for i in 0 1 2; do SHARD=$i/3 python3 tools/seed_sweep.py > sweep_seeds_$i.log 2>&1 & done
ls selftest/mutants/*/*.diff | sort > sweep_mutants.lst
for i in 0 1; do
  ( awk -v i=$i 'NR % 2 == i' sweep_mutants.lst | while read m; do
      p=$(basename "$(dirname "$m")"); selftest/mutant.sh "$p" "$PWD/$m" 2>&1 | tail -1
    done ) > sweep_mutants_$i.log 2>&1 &
done
wait
cat sweep_seeds_0.log sweep_seeds_1.log sweep_seeds_2.log | sort
echo "== mutants"
cat sweep_mutants_0.log sweep_mutants_1.log | sort
echo "== benign"
for b in selftest/benign/*.diff; do selftest/benign.sh "$PWD/$b"; done
echo "== done"
