#!/bin/sh
# tools/sweep_all.sh: builds govc if needed, then runs every seeded change and every stored mutant
# against the check of its property, and the behaviour-preserving corpus against all checks.
# Meant for `vp run -- tools/sweep_all.sh` (works from any snapshot of /verif; /repo is only read).
cd "$(dirname "$0")/.."
./check C09 quick >/dev/null 2>&1 || true
echo "== seeds"
python3 tools/seed_sweep.py
echo "== mutants"
for d in selftest/mutants/*/; do
  p=$(basename "$d")
  for m in "$d"*.diff; do selftest/mutant.sh "$p" "$PWD/$m" 2>&1 | tail -1; done
done
echo "== benign"
for b in selftest/benign/*.diff; do selftest/benign.sh "$PWD/$b"; done
