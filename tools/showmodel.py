#!/usr/bin/env python3
# showmodel.py <replay.json> [substr...]: print the short entries of a solver model
import json,sys
d=json.load(open(sys.argv[1]))
print(d['obligation'],d['status'],'|',d.get('at'))
m=d.get('model') or {}
subs=sys.argv[2:]
for k in sorted(m):
    v=m[k]
    if v.startswith('(let'): continue
    if subs and not any(s in k for s in subs): continue
    print(' ',k,'=',v[:150])
