#!/bin/sh
# tools/confirm_seed.sh <seed dir with patch.diff demo_test.go DEMO_PATH.txt>  [<name for /verif/seeded>]
# Confirms in a scratch worktree of /repo HEAD: with the patch the pinned suite passes and the
# demonstration fails; without it the demonstration passes.  On success copies it to /verif/seeded/<name>.
set -e
src="$1"; name="$2"
export GOFLAGS=-mod=mod GOPROXY=off GOSUMDB=off GOTOOLCHAIN=local
wt="/tmp/wt/confirm_$$"
git -C /repo worktree add --detach "$wt" HEAD >/dev/null 2>&1
cleanup() { git -C /repo worktree remove --force "$wt" >/dev/null 2>&1 || true; }
trap cleanup EXIT
demo="$(cat "$src/DEMO_PATH.txt" | tr -d '\n')"
pkg="./$(dirname "$demo")"
cd "$wt"
cp "$src/demo_test.go" "$wt/$demo"
if go test -vet=off -count=1 -timeout 10m -run 'Seed' "$pkg" >/tmp/confirm_base.log 2>&1; then base=pass; else base=FAIL; fi
rm "$wt/$demo"
git apply "$src/patch.diff" || { echo "RESULT $src patch-does-not-apply"; exit 1; }
go build ./... || { echo "RESULT $src build-fails"; exit 1; }
if go test -vet=off -count=1 -timeout 25m ./... >/tmp/confirm_suite.log 2>&1; then suite=pass; else suite=FAIL; fi
git checkout -- internal/mobius/test/config/Users 2>/dev/null; rm -f internal/mobius/test/config/Users/test-user.yaml
cp "$src/demo_test.go" "$wt/$demo"
if go test -vet=off -count=1 -timeout 10m -run 'Seed' "$pkg" >/tmp/confirm_demo.log 2>&1; then demo_r=pass; else demo_r=FAIL; fi
echo "RESULT $src base-demo=$base suite-with-patch=$suite demo-with-patch=$demo_r"
if [ "$base" = pass ] && [ "$suite" = pass ] && [ "$demo_r" = FAIL ] && [ -n "$name" ]; then
  mkdir -p "/verif/seeded/$name"
  cp "$src/patch.diff" "$src/demo_test.go" "$src/DEMO_PATH.txt" "/verif/seeded/$name/"
  cp "$src/meta.json" "/verif/seeded/$name/agent_meta.json"
  echo "STORED /verif/seeded/$name"
fi
