#!/usr/bin/env python3
# tools/whydead.py <query.smt2>: for an unsat (dead cover) query, list the single assert lines whose
# removal makes it satisfiable (a cheap substitute for an unsat core)
import sys,subprocess,tempfile,os
lines=open(sys.argv[1]).read().split('\n')
idx=[i for i,l in enumerate(lines) if l.startswith('(assert ')]
def run(ls):
    f=tempfile.NamedTemporaryFile('w',suffix='.smt2',delete=False); f.write('\n'.join(ls)); f.close()
    out=subprocess.run(['z3-new','-T:10',f.name],capture_output=True,text=True).stdout.split('\n')[0]
    os.unlink(f.name); return out
print('full:',run(lines))
for i in idx[:-1]:
    r=run(lines[:i]+lines[i+1:])
    if r=='sat': print('needed line',i+1,':',lines[i][:400])
