#!/usr/bin/env python3
# runs every stored seeded change against the check of its property; updates seeded/<name>/meta.json
import json, os, subprocess, sys, glob
root=os.path.dirname(os.path.dirname(os.path.abspath(__file__)))
claimed={c['property_id'] for c in json.load(open(root+'/MANIFEST.json'))['checks']}
only=sys.argv[1:] 
shard=os.environ.get('SHARD')  # "i/n": every n-th seed starting at i
for idx,d in enumerate(sorted(glob.glob(root+'/seeded/*'))):
    name=os.path.basename(d)
    if shard:
        i,n=map(int,shard.split('/'))
        if idx % n != i: continue
    if only and not any(name.startswith(o) for o in only): continue
    prop=name.split('_')[0]
    am=json.load(open(d+'/agent_meta.json')) if os.path.exists(d+'/agent_meta.json') else {}
    meta=json.load(open(d+'/meta.json')) if os.path.exists(d+'/meta.json') else {}
    meta.update({"property":prop,"summary":am.get("summary",meta.get("summary","")),"needs":am.get("needs",meta.get("needs","")),
      "files":am.get("files",[]),"functions":am.get("functions",[]),
      "confirmed":"tools/confirm_seed.sh: in a scratch worktree of /repo HEAD the pinned suite passes with patch.diff applied, the demonstration (demo_test.go at DEMO_PATH.txt, go test -run Seed) fails with it and passes without it"})
    if prop in claimed or os.environ.get('SWEEP_ALL'):
        p=subprocess.run([root+'/selftest/mutant.sh',prop,d+'/patch.diff'],capture_output=True,text=True)
        lines=[l for l in p.stdout.splitlines() if l.startswith('VIOLATION')]
        meta["check_result"]="detected" if p.returncode==0 else "missed"
        meta["violations"]=[l.split('replay=')[1].split()[0].split('/')[-1] for l in lines][:6]
        print(name, meta["check_result"], meta["violations"][:2])
    else:
        meta["check_result"]="property not claimed yet"
        print(name,"(no check yet)")
    json.dump(meta,open(d+'/meta.json','w'),indent=1)
