#!/bin/sh
# runs the quick check of every claimed property; prints one line each
cd /verif
for p in $(python3 -c "import json;print(' '.join(c['property_id'] for c in json.load(open('MANIFEST.json'))['checks']))"); do
  ./check $p quick | tail -1
done
