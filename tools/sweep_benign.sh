#!/bin/sh
# tools/sweep_benign.sh: the behaviour-preserving corpus against all checks (every check must stay silent).
cd "$(dirname "$0")/.."
./check C09 quick >/dev/null 2>&1 || true
echo "== benign"
for b in selftest/benign/*.diff; do selftest/benign.sh "$PWD/$b"; done
echo "== done"
