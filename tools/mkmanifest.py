#!/usr/bin/env python3
# regenerates /verif/MANIFEST.json from the table below (claimed checks) + properties.jsonl
import json, subprocess
props=[json.loads(l) for l in open('/verif/properties.jsonl')]
TECH="contract-based deductive verification: WP-style VCs generated over go/ssa of /repo, contracts as //@ comments, discharged by SMT (z3 5.1/4.8, cvc5)"
TRUST="Trusted: govc (the VC generator written for this task), go/ssa + go/types, the SMT solvers, the assumed contracts of standard-library/third-party functions and the stated modelling assumptions (all listed in the evidence file)."
C={}
C['C01']=("Every encoder Read method under contract is proved, for all objects within the prefix ranges and every buffer size, to return exactly the next bytes of the wire layout transcribed from the protocol document (cursor contract), to advance its offset by that amount, to report io.EOF exactly when exhausted, to leave its wire image unchanged and not to panic; decoders are proved to store exactly the corresponding sub-ranges of their input. The drain lemma then gives termination and buffer-size independence.",
 "Not yet under contract: Transaction.Read/Write, Account.Read, FilePath.Write, FileResumeData marshal/unmarshal, GetNewsArtListData.")
C['C05']=("For each of the 43 registered transaction handlers the real control flow is executed symbolically with the requester's 64-bit bitmap, the target kind and all request fields as free symbols; at every effect site (classified by callee) the path condition is proved to imply the privilege that spec/privileges.spec (written from the protocol document and the property text) assigns to that effect and kind; unclassified effects, spurious denials, effects before a denial, a denial that is not returned and success replies without an always-required privilege are separate obligations. Authorize and AccessBitmap.IsSet are proved functionally (bit i from the most significant bit of byte 0).",
 "Authorize is abstracted to priv(recv,i) inside handlers (its own contract is proved); target kinds limited to directory/regular file; the parsed request is assumed not to be modified during the handler; effect classification is by callee name (govc/stdmodels.go effectTable).")
C['C06']=("Both account-creation paths (350 NewUser and the create branch of 349 UpdateUser) are executed symbolically; the 64-iteration subset loop carries the inductive invariant 'every requested bit below i is held by the creator', and at the AccountManager.Create call site the created account's bitmap (through NewAccount's proved contract) is proved to be a subset of the creator's, for all pairs of 64-bit bitmaps. In HandleDisconnectUser both BanList.Add sites and the delayed Disconnect are proved reachable only when the target lacks bit 23.",
 "Loop ordinals and the local names newAccess / clientConn are referenced by the contracts (a rename needs a contract update). Authorize abstracted to priv (proved separately).")
C['C16']=("AccessBitmap.IsSet/Set are proved for all 64 indices and all byte values to use bit i counted from the most significant bit of byte 0; MarshalYAML and the named form of UnmarshalYAML are proved row by row against spec/access_names.spec (40 rows from the protocol document): the field tagged with a privilege's name equals that privilege's bit, Set(j) happens iff j is defined and its name maps to true; the legacy array form is proved (loop invariant) to store element i into byte i; Authorize is proved to decide by the same bit.",
 "YAML library behaviour is assumed; the save/load lemma is the propositional composition of the two table results; legacy form under the hypothesis that the decoded array does not alias the bitmap.")
checks=[]
for pid,(text,note) in sorted(C.items()):
    checks.append({"property_id":pid,"quick_cmd":"./check %s quick"%pid,"thorough_cmd":"./check %s thorough"%pid,
      "evidence_file":"/verif/evidence/%s.json"%pid,"replay_cmd_template":"./check replay {path}","engine":"govc",
      "level_claimed":{"category":"proof","text":text,"design_ref":"DESIGN.md section 5 "+pid},
      "level_note":TRUST+" "+note,"technique":TECH})
hooks=subprocess.run("git -C /repo log --format=%h --grep='^verif hook'",shell=True,capture_output=True,text=True).stdout.split()
m={"version":1,
 "setup_cmd":"cd /verif/govc && GOFLAGS=-mod=mod GOPROXY=off GOSUMDB=off GOTOOLCHAIN=local go build -o ../bin/govc .",
 "hooks":{"guard":"verif","enable":"-tags verif (go/packages BuildFlags; the guarded files are comment-only contract files)",
   "baseline_off_cmd":"cd /repo && GOFLAGS=-mod=mod GOPROXY=off GOSUMDB=off GOTOOLCHAIN=local go test -vet=off -count=1 -timeout 25m ./...",
   "source_commits":hooks,"add_only":True},
 "engines":[{"name":"govc","path":"/verif/govc","serves_properties":sorted(C),"kind_free_text":"contract-based deductive verifier for Go written for this task: weakest-precondition style VC generation over go/ssa (x/tools v0.29.0) of /repo's working tree, contracts as //@ comments in build-tag-guarded files, obligations discharged by z3 5.1.0 / z3 4.8.12 / cvc5 1.0"}],
 "checks":checks,
 "notes":"Genuine defects repaired by fix: commits in /repo and findings recorded without repair are listed in /verif/known_findings.jsonl; seeded breaking changes used to test the checks are under /verif/seeded.",
 "not_applicable":[{"property_id":p["id"],"reason":"check not built yet (framework under construction; see DESIGN.md section 9)"} for p in props if p['id'] not in C]}
json.dump(m,open('/verif/MANIFEST.json','w'),indent=1)
print("claimed:",sorted(C))
