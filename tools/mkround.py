#!/usr/bin/env python3
"""tools/mkround.py <seeddir> <worktreedir>: prepares one round of seeded changes.

For every property: a detached scratch worktree of /repo (contract files removed in a local
commit, so the sub-agent sees nothing of /verif) and a self-contained prompt file that carries only
the property text and one-line descriptions of the changes already stored under seeded/.
The sub-agents are launched by hand with "read <seeddir>/Cxx/prompt.txt".
"""
import json, os, subprocess, sys, glob

seeddir, wtdir = sys.argv[1], sys.argv[2]
root = os.path.dirname(os.path.dirname(os.path.abspath(__file__)))
props = [json.loads(l) for l in open(os.path.join(root, 'properties.jsonl'))]
os.makedirs(wtdir, exist_ok=True)
for p in props:
    pid = p['id']
    wt = os.path.join(wtdir, pid)
    sd = os.path.join(seeddir, pid)
    os.makedirs(sd, exist_ok=True)
    if not os.path.isdir(wt):
        subprocess.check_call(['git', '-C', '/repo', 'worktree', 'add', '--detach', '-q', wt, 'HEAD'])
        for f in glob.glob(os.path.join(wt, '**', 'zz_verif_*.go'), recursive=True):
            os.remove(f)
        subprocess.check_call(['git', '-C', wt, 'commit', '-qam', 'base'])
    known = []
    for d in sorted(glob.glob(os.path.join(root, 'seeded', pid + '_v*'))):
        try:
            m = json.load(open(os.path.join(d, 'meta.json')))
            known.append(' - ' + m.get('summary', '')[:220])
        except Exception:
            pass
    files = ', '.join(p.get('anchors', {}).get('files', []))
    q = p.get('quantifier', {}).get('text', '')
    txt = f"""You are working alone in a scratch git worktree of a Go project (jhalter/mobius, a server for the 1990s Hotline chat/file-sharing protocol) at {wt}. There is no network. Before every go command run: export GOFLAGS=-mod=mod GOPROXY=off GOSUMDB=off GOTOOLCHAIN=local . Work ONLY inside {wt} and write your deliverables to {sd}/ ; do not read or write /repo or /verif or any other directory. Never use `git stash` (the stash is shared with sibling worktrees); to undo your change temporarily use `git diff HEAD > {sd}/patch.diff && git apply -R {sd}/patch.diff`.

The project is supposed to satisfy this semantic property:

{pid}: {p['title']}
Statement: {p['statement']}
Quantifier: {q}
(Relevant code: {files})

TASK. Produce ONE realistic code change - the kind a developer might plausibly commit: a refactoring, an optimisation, a 'simplification', a small feature tweak, a well-meant robustness change - that BREAKS this property, such that
 (a) the project still compiles (go build ./...),
 (b) the complete existing test suite still passes unchanged (go test -vet=off -count=1 ./...),
 (c) the breakage needs something specific to manifest - a particular input, size, name, option, sequence of requests or timing - and is not hit by every run.
Keep it small (under ~40 changed lines), plausible, with an innocuous-looking comment. Do not edit or add test files in the patch. Prefer a subtle semantic slip (an off-by-one, a wrong variable, a changed order of two steps, a condition that is almost equivalent, a value computed from the wrong source, a boundary case) inside a function that is central to the property, over deleting a check or adding new machinery.

These changes are already known, so do something DIFFERENT in kind and in a different function if possible (look for a function relevant to the property that none of these touches):
""" + '\n'.join(known) + f"""

DELIVERABLES in {sd}/ :
 - patch.diff : output of `git diff HEAD` in the worktree (must apply with `git apply` to a clean checkout)
 - demo_test.go : a Go test file whose test function is named TestSeedDemo_<something>, written for the package directory where it has to be placed, that FAILS with your change applied and PASSES on the original code. It may use unexported identifiers of that package. It must be deterministic and finish within a minute.
 - DEMO_PATH.txt : one line, the path RELATIVE to the repository root where demo_test.go must be copied, e.g. hotline/zz_seed_demo_test.go or internal/mobius/zz_seed_demo_test.go
 - meta.json : JSON object with keys property ("{pid}"), summary (what the change does and why it breaks the property), needs (what specific circumstances are needed for the breakage to show), files (list), functions (list)

VERIFY YOURSELF before finishing: with the patch applied the whole suite passes and `go test -vet=off -count=1 -run Seed <pkg>` on your demo FAILS; with the patch reverted (git apply -R) the demo PASSES. Do not leave demo_test.go inside the worktree when you generate patch.diff (the patch must contain only the code change). The test suite leaves an untracked file internal/mobius/test/config/Users/test-user.yaml behind: delete it, it must not be in the patch. Finish with a three-line report: what you changed, where, and the result of your verification.
"""
    open(os.path.join(sd, 'prompt.txt'), 'w').write(txt)
    print(pid, 'worktree', wt, 'known', len(known))
