//go:build verif

// Contracts for package hotline (comment-only; see /verif/DESIGN.md).
package hotline

//@ define wire_Field(f) := cat(bytes(f.Type), be16(len(f.Data)), bytes(f.Data))
//@ define inv_Field(f) := len(f.Data) <= 65535 && u16(bytes(f.FieldSize)) == len(f.Data)

//@ func (f *Field) Read(p []byte) (n int, err error)
//@   requires f != nil && inv_Field(f) && f.readOffset >= 0
//@   let W := old(wire_Field(f))
//@   ensures old(f.readOffset) >= len(W) ==> n == 0 && is_eof(err)
//@   ensures old(f.readOffset) < len(W) ==> err == nil && n == min(len(p), len(W)-old(f.readOffset))
//@   ensures old(f.readOffset) < len(W) ==> f.readOffset == old(f.readOffset)+n
//@   ensures old(f.readOffset) >= len(W) ==> f.readOffset == old(f.readOffset)
//@   ensures forall(i, 0, n, p[i] == W[old(f.readOffset)+i])
//@   nopanic

//@ func NewField(fieldType [2]byte, data []byte) (r Field)
//@   requires len(data) <= 65535
//@   ensures r.Type == fieldType && r.readOffset == 0
//@   ensures len(r.Data) == len(data) && u16(bytes(r.FieldSize)) == len(data)
//@   ensures forall(i, 0, len(data), r.Data[i] == old(data[i]))
//@   ensures fresh(r.Data)
//@   nopanic

//@ func (f *Field) Write(p []byte) (n int, err error)
//@   requires f != nil
//@   ensures len(p) < 4 ==> err != nil && n == 0
//@   ensures len(p) >= 4 && len(p) < 4+u16(bytes(p),2) ==> err != nil && n == 0
//@   ensures len(p) >= 4 && len(p) >= 4+u16(bytes(p),2) ==> err == nil && n == 4+u16(bytes(p),2)
//@   ensures err == nil ==> f.Type[0] == old(p[0]) && f.Type[1] == old(p[1]) && f.FieldSize[0] == old(p[2]) && f.FieldSize[1] == old(p[3])
//@   ensures err == nil ==> len(f.Data) == n-4 && forall(i, 0, n-4, f.Data[i] == old(p[4+i])) && fresh(f.Data)
//@   ensures err == nil ==> inv_Field(f)
//@   nopanic

//@ func FieldScanner(data []byte, atEOF bool) (advance int, token []byte, err error)
//@   ensures err == nil
//@   ensures (len(data) < 4 || len(data) < 4+u16(bytes(data),2)) ==> advance == 0 && isnil(token)
//@   ensures len(data) >= 4 && len(data) >= 4+u16(bytes(data),2) ==> advance == 4+u16(bytes(data),2) && same(token, data[0:advance])
//@   nopanic

//@ func transactionScanner(data []byte, atEOF bool) (advance int, token []byte, err error)
//@   let need := 20 + u32(bytes(data),12)
//@   requires len(data) >= 16 ==> u32(bytes(data),12) <= 2147483647
//@   ensures err == nil
//@   ensures (len(data) < 16 || len(data) < need) ==> advance == 0 && isnil(token)
//@   ensures len(data) >= 16 && len(data) >= need ==> advance == need && same(token, data[0:advance])
//@   nopanic

//@ func (f *Field) DecodeInt() (v int, err error)
//@   requires f != nil
//@   ensures len(f.Data) == 2 ==> err == nil && v == u16(bytes(f.Data))
//@   ensures len(f.Data) == 4 ==> err == nil && v == u32(bytes(f.Data))
//@   ensures len(f.Data) != 2 && len(f.Data) != 4 ==> err != nil
//@   nopanic

//@ define wire_User(u) := cat(bytes(u.ID), bytes(u.Icon), bytes(u.Flags), be16(len(u.Name)), bytes(u.Name))

//@ func (u *User) Read(p []byte) (n int, err error)
//@   requires u != nil && u.readOffset >= 0 && len(u.Icon) == 2 && len(u.Flags) == 2 && len(u.Name) <= 65535
//@   let W := old(wire_User(u))
//@   ensures old(u.readOffset) >= len(W) ==> n == 0 && is_eof(err)
//@   ensures old(u.readOffset) < len(W) ==> err == nil && n == min(len(p), len(W)-old(u.readOffset))
//@   ensures old(u.readOffset) < len(W) ==> u.readOffset == old(u.readOffset)+n
//@   ensures forall(i, 0, n, p[i] == W[old(u.readOffset)+i])
//@   nopanic

//@ func EncodeString(clearText []byte) (obfuText []byte)
//@   ensures len(obfuText) == len(clearText) && fresh(obfuText)
//@   ensures forall(i, 0, len(clearText), obfuText[i] == 255 - old(clearText[i]))
//@   loop 1 invariant 0 <= i && i <= len(clearText) && len(obfuText) == len(clearText) && fresh(obfuText)
//@   loop 1 invariant forall(j, 0, i, obfuText[j] == 255 - old(clearText[j]))
//@   loop 1 modifies obfuText
//@   nopanic
