//go:build verif

// Contracts for package hotline.  Comment-only file: with the build tag `verif` off it
// is not part of the build.  The wire layouts (define wire_*) are transcribed from
// docs/HLProtocol.pages.pdf (see /verif/DESIGN.md, Appendix B), not from the code.
package hotline

// ---------------------------------------------------------------------------------
// Field (parameter of a transaction): field ID 2, field size 2, data

//@ define wire_Field(f) := cat(bytes(f.Type), be16(len(f.Data)), bytes(f.Data))
//@ define inv_Field(f) := len(f.Data) <= 65535 && u16(bytes(f.FieldSize)) == len(f.Data)

//@ func (f *Field) Read(p []byte) (n int, err error)
//@   cursor wire_Field readOffset inv_Field

//@ func NewField(fieldType [2]byte, data []byte) (r Field)
//@   requires len(data) <= 65535
//@   ensures r.Type == fieldType && r.readOffset == 0
//@   ensures len(r.Data) == len(data) && u16(bytes(r.FieldSize)) == len(data)
//@   ensures forall(i, 0, len(data), r.Data[i] == old(data[i]))
//@   ensures fresh(r.Data)
//@   modifies nothing
//@   nopanic

//@ func (f *Field) Write(p []byte) (n int, err error)
//@   requires f != nil
//@   ensures len(p) < 4 ==> err != nil && n == 0
//@   ensures len(p) >= 4 && len(p) < 4+u16(bytes(p),2) ==> err != nil && n == 0
//@   ensures len(p) >= 4 && len(p) >= 4+u16(bytes(p),2) ==> err == nil && n == 4+u16(bytes(p),2)
//@   ensures err == nil ==> f.Type[0] == old(p[0]) && f.Type[1] == old(p[1]) && f.FieldSize[0] == old(p[2]) && f.FieldSize[1] == old(p[3])
//@   ensures err == nil ==> len(f.Data) == n-4 && forall(i, 0, n-4, f.Data[i] == old(p[4+i])) && fresh(f.Data)
//@   ensures err == nil ==> inv_Field(f)
//@   modifies f.Type, f.FieldSize, f.Data
//@   nopanic

//@ func FieldScanner(data []byte, atEOF bool) (advance int, token []byte, err error)
//@   ensures err == nil
//@   ensures (len(data) < 4 || len(data) < 4+u16(bytes(data),2)) ==> advance == 0 && isnil(token)
//@   ensures len(data) >= 4 && len(data) >= 4+u16(bytes(data),2) ==> advance == 4+u16(bytes(data),2) && same(token, data[0:advance])
//@   nopanic

//@ func transactionScanner(data []byte, atEOF bool) (advance int, token []byte, err error)
//@   let need := 20 + u32(bytes(data),12)
//@   requires len(data) >= 16 ==> u32(bytes(data),12) <= 2147483647
//@   ensures err == nil
//@   ensures (len(data) < 16 || len(data) < need) ==> advance == 0 && isnil(token)
//@   ensures len(data) >= 16 && len(data) >= need ==> advance == need && same(token, data[0:advance])
//@   nopanic

//@ func (f *Field) DecodeInt() (v int, err error)
//@   requires f != nil
//@   ensures len(f.Data) == 2 ==> err == nil && v == u16(bytes(f.Data))
//@   ensures len(f.Data) == 4 ==> err == nil && v == u32(bytes(f.Data))
//@   ensures len(f.Data) != 2 && len(f.Data) != 4 ==> err != nil
//@   nopanic

//@ func EncodeString(clearText []byte) (obfuText []byte)
//@   ensures len(obfuText) == len(clearText) && fresh(obfuText)
//@   ensures forall(i, 0, len(clearText), obfuText[i] == 255 - old(clearText[i]))
//@   loop 1 invariant 0 <= i && i <= len(clearText) && len(obfuText) == len(clearText) && fresh(obfuText)
//@   loop 1 invariant forall(j, 0, i, obfuText[j] == 255 - old(clearText[j]))
//@   loop 1 modifies obfuText
//@   modifies nothing
//@   nopanic

// ---------------------------------------------------------------------------------
// Account record (user editor): field count 2, then the name, login (obfuscated), access and --
// when a password is set -- password-marker fields.  The record is rebuilt on every Read call, so
// what is emitted must not depend on how far the record has been read: the cursor only
// positions the output (cursor_flow), advances by what was copied and never moves on an error.

//@ func (a *Account) Read(p []byte) (n int, err error)
//@   property C01 C15
//@   cursor_flow readOffset
//@   requires a != nil && a.readOffset >= 0 && len(a.Name) <= 65535 && len(a.Login) <= 65535
//@   loop 1 modifies nothing
//@   loop 1 invariant forall(k, 0, len(fields), fields[k].readOffset == 0 && len(fields[k].Data) <= 65535 && u16(bytes(fields[k].FieldSize)) == len(fields[k].Data))
//@   ensures err == nil ==> a.readOffset == old(a.readOffset) + n && n <= len(p)
//@   ensures err != nil ==> n == 0 && a.readOffset == old(a.readOffset)
//@   before call golang.org/x/crypto/bcrypt.CompareHashAndPassword assert len(arg1) == 0
//@   modifies a.readOffset, p

// ---------------------------------------------------------------------------------
// User name with info (300): user ID 2, icon ID 2, flags 2, name size 2, name

// (icon and flags are kept as received: 2 bytes, or a 4-byte integer of which the record carries
// the low-order half)
//@ define wire_User(u) := cat(bytes(u.ID), bytes(u.Icon)[len(u.Icon)-2:len(u.Icon)], bytes(u.Flags)[len(u.Flags)-2:len(u.Flags)], be16(len(u.Name)), bytes(u.Name))
//@ define inv_User(u) := (len(u.Icon) == 2 || len(u.Icon) == 4) && (len(u.Flags) == 2 || len(u.Flags) == 4) && len(u.Name) <= 65535

//@ func (u *User) Read(p []byte) (n int, err error)
//@   property C01 C13
//@   cursor wire_User readOffset inv_User

// C03: a user's icon and flags are whatever bytes that user sent (any length, also none): listing
// the users must not panic on them -- the panic would hit every OTHER client that asks for the
// user list or joins a chat.
//@ func (u *User) Read(p []byte) (n int, err error)
//@   property C03
//@   requires u != nil && u.readOffset >= 0
//@   nopanic

//@ func (u *User) Write(p []byte) (n int, err error)
//@   requires u != nil && len(p) >= 8 && len(p) >= 8+u16(bytes(p),6)
//@   ensures err == nil && n == 8+u16(bytes(p),6)
//@   ensures u.ID[0] == p[0] && u.ID[1] == p[1] && bytes(u.Icon) == bytes(p)[2:4] && bytes(u.Flags) == bytes(p)[4:6]
//@   ensures bytes(u.Name) == bytes(p)[8:n]
//@   nopanic

// ---------------------------------------------------------------------------------
// File name with info (200): type 4, creator 4, file size 4, reserved 4, name script 2, name size 2, name

//@ define wire_FNWI(f) := cat(bytes(f.FileNameWithInfoHeader.Type), bytes(f.FileNameWithInfoHeader.Creator), bytes(f.FileNameWithInfoHeader.FileSize), bytes(f.FileNameWithInfoHeader.RSVD), bytes(f.FileNameWithInfoHeader.NameScript), be16(len(f.Name)), bytes(f.Name))
//@ define inv_FNWI(f) := len(f.Name) <= 65535 && u16(bytes(f.FileNameWithInfoHeader.NameSize)) == len(f.Name)

//@ func (f *FileNameWithInfo) Read(p []byte) (n int, err error)
//@   cursor wire_FNWI readOffset inv_FNWI

//@ func (f *FileNameWithInfo) Write(p []byte) (n int, err error)
//@   requires f != nil
//@   ensures len(p) < 20 ==> err != nil
//@   ensures len(p) >= 20 && len(p) >= 20+u16(bytes(p),18) ==> err == nil && n == len(p) && inv_FNWI(f)
//@   ensures err == nil ==> bytes(f.FileNameWithInfoHeader.Type) == bytes(p)[0:4] && bytes(f.FileNameWithInfoHeader.Creator) == bytes(p)[4:8] && bytes(f.FileNameWithInfoHeader.FileSize) == bytes(p)[8:12]
//@   ensures err == nil ==> bytes(f.FileNameWithInfoHeader.NameScript) == bytes(p)[16:18] && bytes(f.Name) == bytes(p)[20:20+u16(bytes(p),18)]

// ---------------------------------------------------------------------------------
// Flattened file object.  Information fork: platform 4, type 4, creator 4, flags 4,
// platform flags 4, RSVD 32, create date 8, modify date 8, name script 2, name size 2,
// name, comment size 2, comment.

//@ define wire_InfoFork(i) := cat(bytes(i.Platform), bytes(i.TypeSignature), bytes(i.CreatorSignature), bytes(i.Flags), bytes(i.PlatformFlags), bytes(i.RSVD), bytes(i.CreateDate), bytes(i.ModifyDate), bytes(i.NameScript), be16(len(i.Name)), bytes(i.Name), be16(len(i.Comment)), bytes(i.Comment))
//@ define inv_InfoFork(i) := len(i.Name) <= 65535 && len(i.Comment) <= 65535 && u16(bytes(i.CommentSize)) == len(i.Comment)

//@ func (ffif *FlatFileInformationFork) Read(p []byte) (n int, err error)
//@   cursor wire_InfoFork readOffset inv_InfoFork

//@ func (ffif *FlatFileInformationFork) DataSize() (size []byte)
//@   requires ffif != nil && len(ffif.Name) <= 65535 && len(ffif.Comment) <= 65535
//@   ensures len(size) == 4 && fresh(size) && u32(bytes(size)) == len(old(wire_InfoFork(ffif)))
//@   modifies nothing
//@   nopanic

//@ func (ffif *FlatFileInformationFork) Size() (size [4]byte)
//@   requires ffif != nil && len(ffif.Name) <= 65535 && len(ffif.Comment) <= 65535
//@   ensures u32(bytes(size)) == len(old(wire_InfoFork(ffif)))
//@   modifies nothing
//@   nopanic

//@ func (ffif *FlatFileInformationFork) ReadNameSize() (size []byte)
//@   requires ffif != nil && len(ffif.Name) <= 65535
//@   ensures len(size) == 2 && fresh(size) && u16(bytes(size)) == len(ffif.Name)
//@   modifies nothing
//@   nopanic

//@ func (ffif *FlatFileInformationFork) SetComment(comment []byte) (err error)
//@   requires ffif != nil && len(comment) <= 65535 && len(ffif.Name) <= 65535
//@   ensures err == nil && same(ffif.Comment, comment) && inv_InfoFork(ffif)
//@   nopanic

//@ func (ffif *FlatFileInformationFork) UnmarshalBinary(b []byte) (err error)
//@   let nameEnd := 72 + u16(bytes(b),70)
//@   requires ffif != nil && len(b) >= 72 && len(b) <= 65535 && len(b) >= nameEnd
//@   requires len(b) > nameEnd ==> len(b) >= nameEnd+2 && len(b) >= nameEnd+2+u16(bytes(b),nameEnd)
//@   ensures err == nil
//@   ensures bytes(ffif.Platform) == bytes(b)[0:4] && bytes(ffif.TypeSignature) == bytes(b)[4:8] && bytes(ffif.CreatorSignature) == bytes(b)[8:12]
//@   ensures bytes(ffif.Flags) == bytes(b)[12:16] && bytes(ffif.PlatformFlags) == bytes(b)[16:20] && bytes(ffif.RSVD) == bytes(b)[20:52]
//@   ensures bytes(ffif.CreateDate) == bytes(b)[52:60] && bytes(ffif.ModifyDate) == bytes(b)[60:68] && bytes(ffif.NameScript) == bytes(b)[68:70]
//@   ensures bytes(ffif.Name) == bytes(b)[72:nameEnd]
//@   ensures len(b) > nameEnd ==> bytes(ffif.Comment) == bytes(b)[nameEnd+2:nameEnd+2+u16(bytes(b),nameEnd)] && u16(bytes(ffif.CommentSize)) == len(ffif.Comment)
//@   ensures len(b) <= nameEnd ==> same(ffif.Comment, old(ffif.Comment)) && ffif.CommentSize[0] == old(ffif.CommentSize[0]) && ffif.CommentSize[1] == old(ffif.CommentSize[1])
//@   modifies *ffif
//@   nopanic

//@ func (ffif *FlatFileInformationFork) Write(p []byte) (n int, err error)
//@   let nameEnd := 72 + u16(bytes(p),70)
//@   requires ffif != nil && len(p) >= 72 && len(p) <= 65535 && len(p) >= nameEnd
//@   requires len(p) > nameEnd ==> len(p) >= nameEnd+2 && len(p) >= nameEnd+2+u16(bytes(p),nameEnd)
//@   ensures err == nil && n == len(p)
//@   ensures bytes(ffif.Platform) == bytes(p)[0:4] && bytes(ffif.TypeSignature) == bytes(p)[4:8] && bytes(ffif.CreatorSignature) == bytes(p)[8:12]
//@   ensures bytes(ffif.Flags) == bytes(p)[12:16] && bytes(ffif.PlatformFlags) == bytes(p)[16:20] && bytes(ffif.RSVD) == bytes(p)[20:52]
//@   ensures bytes(ffif.CreateDate) == bytes(p)[52:60] && bytes(ffif.ModifyDate) == bytes(p)[60:68] && bytes(ffif.NameScript) == bytes(p)[68:70]
//@   ensures bytes(ffif.Name) == bytes(p)[72:nameEnd]
//@   ensures len(p) > nameEnd ==> bytes(ffif.Comment) == bytes(p)[nameEnd+2:nameEnd+2+u16(bytes(p),nameEnd)] && u16(bytes(ffif.CommentSize)) == len(ffif.Comment)
//@   ensures len(p) <= nameEnd ==> same(ffif.Comment, old(ffif.Comment)) && ffif.CommentSize[0] == old(ffif.CommentSize[0]) && ffif.CommentSize[1] == old(ffif.CommentSize[1])
//@   modifies *ffif
//@   nopanic

// Flattened file header "FILP" 4, version 2 (=1), RSVD 16, fork count 2; fork header: fork
// type 4, compression 4, RSVD 4, data size 4.  Emitted up to and including the DATA fork header.

//@ define wire_FFO(o) := cat("FILP", seq(0,1), zeros(16), bytes(o.FlatFileHeader.ForkCount), "INFO", zeros(4), zeros(4), be32(len(wire_InfoFork(o.FlatFileInformationFork))), wire_InfoFork(o.FlatFileInformationFork), "DATA", bytes(o.FlatFileDataForkHeader.CompressionType), bytes(o.FlatFileDataForkHeader.RSVD), bytes(o.FlatFileDataForkHeader.DataSize))
//@ define inv_FFO(o) := bytes(o.FlatFileHeader.Format) == "FILP" && bytes(o.FlatFileHeader.Version) == seq(0,1) && bytes(o.FlatFileHeader.RSVD) == zeros(16) && bytes(o.FlatFileDataForkHeader.ForkType) == "DATA" && inv_InfoFork(o.FlatFileInformationFork)

//@ func (ffo *flattenedFileObject) Read(p []byte) (n int, err error)
//@   cursor wire_FFO readOffset inv_FFO

// ---------------------------------------------------------------------------------
// Folder download item header: header size 2, type 2, file path

//@ define wire_FileHeader(h) := cat(be16(2+len(h.FilePath)), bytes(h.Type), bytes(h.FilePath))
//@ define inv_FileHeader(h) := len(h.FilePath) <= 65533 && u16(bytes(h.Size)) == 2+len(h.FilePath)

//@ func (fh *FileHeader) Read(p []byte) (n int, err error)
//@   cursor wire_FileHeader readOffset inv_FileHeader

// ---------------------------------------------------------------------------------
// News.  Article list entry: ID 4, time stamp 8, parent ID 4, flags 4, flavor count 2,
// title size 1, title, poster size 1, poster, flavor size 1, MIME string, article size 2.

//@ define wire_NewsArtList(a) := cat(bytes(a.ID), bytes(a.TimeStamp), bytes(a.ParentID), bytes(a.Flags), seq(0,1), seq(len(a.Title)), bytes(a.Title), seq(len(a.Poster)), bytes(a.Poster), seq(10), "text/plain", bytes(a.ArticleSize))
//@ define inv_NewsArtList(a) := len(a.Title) <= 255 && len(a.Poster) <= 255

//@ func (nal *NewsArtList) Read(p []byte) (n int, err error)
//@   cursor wire_NewsArtList readOffset inv_NewsArtList

// News article list data (321): ID 4, article count 4, name size 1, name, description size 1,
// description, articles.

//@ define wire_NewsArtListData(d) := cat(bytes(d.ID), be32(d.Count), seq(len(d.Name)), bytes(d.Name), seq(len(d.Description)), bytes(d.Description), bytes(d.NewsArtList))
//@ define inv_NewsArtListData(d) := len(d.Name) <= 255 && len(d.Description) <= 255 && 0 <= d.Count && d.Count <= 4294967295

//@ func (nald *NewsArtListData) Read(p []byte) (n int, err error)
//@   cursor wire_NewsArtListData readOffset inv_NewsArtListData

// ---------------------------------------------------------------------------------
// Tracker registration (UDP): 0x0001, port 2, user count 2, 0x0000, pass ID 4, name size 1,
// name, description size 1, description, password size 1, password.

//@ define wire_TrackerReg(t) := cat(seq(0,1), bytes(t.Port), be16(t.UserCount), seq(0,0), bytes(t.PassID), seq(len(t.Name)), bytes(t.Name), seq(len(t.Description)), bytes(t.Description), seq(len(t.Password)), bytes(t.Password))
//@ define inv_TrackerReg(t) := len(t.Name) <= 255 && len(t.Description) <= 255 && len(t.Password) <= 255 && 0 <= t.UserCount && t.UserCount <= 65535

// Tracker listing record (what a tracker sends back): address 4, port 2, user count 2, 2 unused,
// name size 1, name, description size 1, description.  The decoder takes each field from its
// place in a complete record and reports the record's length.
//@ func (s *ServerRecord) Write(b []byte) (n int, err error)
//@   property C01
//@   requires s != nil && len(b) >= 13 && len(b) >= 12 + b[10] && len(b) >= 12 + b[10] + b[11+b[10]]
//@   ensures err == nil && n == 12 + old(b[10]) + old(b[11+b[10]])
//@   ensures bytes(s.IPAddr) == old(bytes(b)[0:4]) && bytes(s.Port) == old(bytes(b)[4:6]) && bytes(s.NumUsers) == old(bytes(b)[6:8])
//@   ensures s.NameSize == old(b[10]) && len(s.Name) == old(b[10]) && s.DescriptionSize == old(b[11+b[10]]) && len(s.Description) == s.DescriptionSize
//@   ensures bytes(s.Name) == old(bytes(b)[11:11+b[10]]) && bytes(s.Description) == old(bytes(b)[12+b[10]:12+b[10]+b[11+b[10]]])
//@   modifies *s
//@   nopanic

//@ func (tr *TrackerRegistration) Read(p []byte) (n int, err error)
//@   cursor wire_TrackerReg readOffset inv_TrackerReg

// ---------------------------------------------------------------------------------
// Decoders of fixed records

//@ func (h *handshake) Write(p []byte) (n int, err error)
//@   requires h != nil
//@   ensures len(p) != 12 ==> err != nil && n == 0
//@   ensures len(p) == 12 ==> err == nil && n == 12 && bytes(h.Protocol) == bytes(p)[0:4] && bytes(h.SubProtocol) == bytes(p)[4:8] && bytes(h.Version) == bytes(p)[8:10] && bytes(h.SubVersion) == bytes(p)[10:12]
//@   nopanic

//@ func (h *handshake) Valid() (ok bool)
//@   requires h != nil
//@   ensures ok == (bytes(h.Protocol) == "TRTP" && bytes(h.SubProtocol) == "HOTL")
//@   nopanic

//@ func (tf *transfer) Write(b []byte) (n int, err error)
//@   requires tf != nil
//@   ensures len(b) < 16 ==> err != nil
//@   ensures err == nil ==> n == len(b) && len(b) >= 16 && bytes(tf.Protocol) == "HTXF" && bytes(tf.ReferenceNumber) == bytes(b)[4:8] && bytes(tf.DataSize) == bytes(b)[8:12]
//@   ensures len(b) >= 16 && bytes(b)[0:4] == "HTXF" ==> err == nil
//@   nopanic

//@ func (fpi *FilePathItem) Write(b []byte) (n int, err error)
//@   requires fpi != nil
//@   ensures len(b) < 3 ==> err != nil
//@   ensures len(b) >= 3 && len(b) >= 3+b[2] ==> err == nil && n == 3+b[2] && fpi.Len == b[2] && bytes(fpi.Name) == bytes(b)[3:3+b[2]]
//@   modifies fpi.Len, fpi.Name

//@ func fileItemScanner(data []byte, atEOF bool) (advance int, token []byte, err error)
//@   ensures err == nil
//@   ensures len(data) < 3 ==> advance == 0 && isnil(token)

//@ func NewForkInfoList(b []byte) (r *ForkInfoList)
//@   requires len(b) >= 4
//@   ensures r != nil && bytes(r.Fork) == "DATA" && bytes(r.DataSize) == bytes(b)[0:4] && bytes(r.RSVDA) == zeros(4) && bytes(r.RSVDB) == zeros(4)
//@   nopanic

// News category list data 1.5 (323): type 2 (2 bundle / 3 category), count 2; category only:
// GUID 16, add SN 4, delete SN 4; then name size 1, name.

//@ define wire_NewsCat15(c) := ite(bytes(c.Type) == seq(0,3), cat(bytes(c.Type), be16(len(c.Articles)+len(c.SubCats)), bytes(c.GUID), bytes(c.AddSN), bytes(c.DeleteSN), seq(len(c.Name)), bytes(c.Name)), cat(bytes(c.Type), be16(len(c.Articles)+len(c.SubCats)), seq(len(c.Name)), bytes(c.Name)))
//@ define inv_NewsCat15(c) := len(c.Name) <= 255 && len(c.Articles)+len(c.SubCats) <= 65535

//@ func (newscat *NewsCategoryListData15) Read(p []byte) (n int, err error)
//@   cursor wire_NewsCat15 readOffset inv_NewsCat15

// ---------------------------------------------------------------------------------
// Access privileges: bit i counted from the most significant bit of byte 0

//@ func (bits *AccessBitmap) IsSet(i int) (r bool)
//@   requires bits != nil && 0 <= i && i < 64
//@   ensures r == bit(bytes(bits), i)
//@   modifies nothing
//@   nopanic

//@ func (bits *AccessBitmap) Set(i int)
//@   requires bits != nil && 0 <= i && i < 64
//@   ensures bit(bytes(bits), i)
//@   ensures forall(j, 0, 64, j != i ==> bit(bytes(bits), j) == old(bit(bytes(bits), j)))
//@   modifies *bits
//@   nopanic

//@ func (cc *ClientConn) Authorize(access int) (r bool)
//@   requires cc != nil && 0 <= access && access < 64
//@   ensures cc.Account == nil ==> !r
//@   ensures cc.Account != nil ==> r == bit(bytes(cc.Account.Access), access)
//@   nopanic

//@ func NewAccount(login string, name string, password string, access AccessBitmap) (r *Account)
//@   ensures r != nil && fresh(r) && r.Access == access && r.Login == login && r.Name == name
//@   modifies nothing
//@   nopanic

// ---------------------------------------------------------------------------------
// Client registry (C13): the ID handed to a new connection is not held by any registered client.

//@ define inv_ClientMgr(cm) := cm != nil && !isnil(cm.clients)

//@ func (cm *MemClientMgr) Add(cc *ClientConn)
//@   requires inv_ClientMgr(cm) && cc != nil
//@   ensures !has_old(cm.clients, cc.ID)
//@   ensures has(cm.clients, cc.ID) && get(cm.clients, cc.ID) == cc
//@   ensures forall(a, 0, 256, forall(b, 0, 256, (a != cc.ID[0] || b != cc.ID[1]) ==> has(cm.clients, seq(a, b)) == has_old(cm.clients, seq(a, b)) && get(cm.clients, seq(a, b)) == get_old(cm.clients, seq(a, b))))
//@   loop 1 modifies cc.ID, cm.nextClientID
//@   guarded_by cm.mu: clients, nextClientID
//@   nopanic

//@ func (cm *MemClientMgr) Delete(id ClientID)
//@   guarded_by cm.mu: clients, nextClientID
//@   requires inv_ClientMgr(cm)
//@   ensures !has(cm.clients, id)
//@   ensures forall(a, 0, 256, forall(b, 0, 256, (a != id[0] || b != id[1]) ==> has(cm.clients, seq(a, b)) == has_old(cm.clients, seq(a, b)) && get(cm.clients, seq(a, b)) == get_old(cm.clients, seq(a, b))))
//@   nopanic

//@ func (cm *MemClientMgr) Get(id ClientID) (r *ClientConn)
//@   guarded_by cm.mu: clients, nextClientID
//@   requires inv_ClientMgr(cm)
//@   ensures has(cm.clients, id) ==> r == get(cm.clients, id)
//@   ensures !has(cm.clients, id) ==> r == nil
//@   nopanic

//@ func (cm *MemClientMgr) List() (r []*ClientConn)
//@   guarded_by cm.mu: clients, nextClientID
//@   requires inv_ClientMgr(cm)

// ---------------------------------------------------------------------------------
// Replies (C14): a reply carries the reply flag, the request's ID and the requester's client ID.

//@ func (cc *ClientConn) NewReply(t *Transaction, fields []Field) (r Transaction)
//@   requires cc != nil && t != nil
//@   ensures r.IsReply == 1 && r.ID == old(t.ID) && r.ClientID == old(cc.ID) && r.ErrorCode[0] == 0 && r.ErrorCode[1] == 0 && r.ErrorCode[2] == 0 && r.ErrorCode[3] == 0 && same(r.Fields, fields) && r.readOffset == 0
//@   nopanic

//@ func (cc *ClientConn) NewErrReply(t *Transaction, errMsg string) (r []Transaction)
//@   requires cc != nil && t != nil && len(errMsg) <= 65535
//@   ensures len(r) == 1 && fresh(r)
//@   ensures r[0].IsReply == 1 && r[0].ID == old(t.ID) && r[0].ClientID == old(cc.ID) && r[0].ErrorCode[0] == 0 && r[0].ErrorCode[1] == 0 && r[0].ErrorCode[2] == 0 && r[0].ErrorCode[3] == 1
//@   ensures len(r[0].Fields) == 1 && r[0].Fields[0].Type[0] == 0 && r[0].Fields[0].Type[1] == 100 && bytes(r[0].Fields[0].Data) == bytes(errMsg) && inv_FieldV(r[0].Fields[0])
//@   nopanic

//@ define inv_FieldV(f) := len(f.Data) <= 65535 && u16(bytes(f.FieldSize)) == len(f.Data)

// ---------------------------------------------------------------------------------
// User flags: a 16-bit word, flag i is bit i of the big-endian value

//@ func (f *UserFlags) IsSet(i int) (r bool)
//@   requires f != nil && 0 <= i && i < 16
//@   ensures r == (bitof(u16(bytes(f)), i) == 1)
//@   modifies nothing
//@   nopanic

//@ func (f *UserFlags) Set(i int, newVal uint)
//@   requires f != nil && 0 <= i && i < 16 && (newVal == 0 || newVal == 1)
//@   ensures bitof(u16(bytes(f)), i) == newVal
//@   ensures forall(j, 0, 16, j != i ==> bitof(u16(bytes(f)), j) == old(bitof(u16(bytes(f)), j)))
//@   modifies *f
//@   split i 0 16
//@   nopanic

// ---------------------------------------------------------------------------------
// C02 segmentation independence.  A connection delivers its bytes in arbitrary chunks, so
//  - a chunking copy (io.Copy / io.CopyN) may feed a record parser (a Write method that needs a
//    complete record) only from an in-memory reader;  writer_kind: 1 record parser, 2 stream
//    writer, 0 unknown;  reader_kind: 2 in-memory reader, otherwise a connection;
//  - the connection is never read with a bare Read whose count would be taken for a record.

//@ func (h *handshake) Write(p []byte) (n int, err error)
//@   record_writer
//@ func (tf *transfer) Write(b []byte) (n int, err error)
//@   record_writer
//@ func (ffif *FlatFileInformationFork) Write(p []byte) (n int, err error)
//@   record_writer
//@ func (f *Field) Write(p []byte) (n int, err error)
//@   record_writer

//@ func performHandshake(rw io.ReadWriter) (err error)
//@   before any call io.CopyN assert writer_kind(arg0) == 2 || reader_kind(arg1) == 2
//@   before any call io.Copy assert writer_kind(arg0) == 2 || reader_kind(arg1) == 2
//@   before call (io.ReadWriter).Read assert false
//@   before call (io.Reader).Read assert false
//@   before call io.ReadFull assert len(arg1) == 12 && same(arg0, rw)
//@   before any call bufio.NewReader assert !same(arg0, rw)
//@   before any call bufio.NewReaderSize assert !same(arg0, rw)
//@   before any call bufio.NewScanner assert !same(arg0, rw)

//@ func (s *Server) handleFileTransfer(ctx context.Context, rwc io.ReadWriter) (err error)
//@   before any call io.CopyN assert writer_kind(arg0) == 2 || reader_kind(arg1) == 2
//@   before any call io.Copy assert writer_kind(arg0) != 1 || reader_kind(arg1) == 2
//@   before call (io.ReadWriter).Read assert false
//@   before call (io.Reader).Read assert false
//@   before call io.ReadFull assert len(arg1) == 16 && same(arg0, rwc)
//@   before any call bufio.NewReader assert !same(arg0, rwc)
//@   before any call bufio.NewReaderSize assert !same(arg0, rwc)
//@   before any call bufio.NewScanner assert !same(arg0, rwc)

//@ func (ffo *flattenedFileObject) ReadFrom(r io.Reader) (n int64, err error)
//@   before any call io.CopyN assert writer_kind(arg0) != 1 || reader_kind(arg1) == 2
//@   before any call io.Copy assert writer_kind(arg0) != 1 || reader_kind(arg1) == 2
//@   before call (io.Reader).Read assert false

// C09 / C10: how much of the upload stream the header parser consumes is what the stream itself
// declares: the information fork is exactly the DataSize bytes announced by its fork header (a
// client may omit the comment part), read in one piece from the connection and parsed from that
// buffer; nothing else is read between the two fork headers.
//@ func (ffo *flattenedFileObject) ReadFrom(r io.Reader) (n int64, err error)
//@   property C01 C09 C10
//@   before call io.ReadFull#1 assert same(arg0, r) && len(arg1) == u32(bytes(ffo.FlatFileInformationForkHeader.DataSize))
//@   before any call io.ReadFull#2 assert false
//@   before call bytes.NewReader assert same(arg0, callarg("io.ReadFull#1", 1))

//@ func UploadFolderHandler(rwc io.ReadWriter, fullPath string, fileTransfer *FileTransfer, fileStore FileStore, rLogger *slog.Logger, preserveForks bool) (err error)
//@   before any call io.CopyN assert writer_kind(arg0) != 1 || reader_kind(arg1) == 2
//@   before any call io.Copy assert writer_kind(arg0) != 1 || reader_kind(arg1) == 2
//@   before call (io.ReadWriter).Read assert false
//@   before call (io.Reader).Read assert false

//@ func DownloadFolderHandler(rwc io.ReadWriter, fullPath string, fileTransfer *FileTransfer, fileStore FileStore, rLogger *slog.Logger, preserveForks bool) (err error)
//@   before any call io.CopyN assert writer_kind(arg0) != 1 || reader_kind(arg1) == 2
//@   before call (io.ReadWriter).Read assert false
//@   before call (io.Reader).Read assert false

// C02: the transfer handlers read the connection itself, never through a buffer of their own: a
// buffered reader takes more than was asked for, and whatever reads the connection next (another
// helper, the per-item acknowledgement, the payload copy) misses those bytes -- only when segments
// happen to carry more than the current record.
//@ func DownloadFolderHandler(rwc io.ReadWriter, fullPath string, fileTransfer *FileTransfer, fileStore FileStore, rLogger *slog.Logger, preserveForks bool) (err error)
//@   property C02
//@   before any call bufio.NewReader assert !same(arg0, rwc)
//@   before any call bufio.NewReaderSize assert !same(arg0, rwc)
//@   before any call bufio.NewScanner assert !same(arg0, rwc)
//@   before any call io.ReadFull assert same(arg0, rwc)
//@ func DownloadFolderHandler$1(path string, info os.FileInfo, err error) (r error)
//@   property C02
//@   before any call bufio.NewReader assert !same(arg0, *rwc)
//@   before any call bufio.NewReaderSize assert !same(arg0, *rwc)
//@   before any call io.ReadFull assert same(arg0, *rwc)
//@ func UploadFolderHandler(rwc io.ReadWriter, fullPath string, fileTransfer *FileTransfer, fileStore FileStore, rLogger *slog.Logger, preserveForks bool) (err error)
//@   property C02
//@   before any call bufio.NewReader assert !same(arg0, rwc)
//@   before any call bufio.NewReaderSize assert !same(arg0, rwc)
//@   before any call bufio.NewScanner assert !same(arg0, rwc)
//@   before any call io.ReadFull assert same(arg0, rwc)

// C02 + C09: receiveFile copies exactly the declared data-fork size into the target or fails.

//@ func receiveFile(r io.Reader, targetFile io.Writer, resForkFile io.Writer, infoFork io.Writer, counterWriter io.Writer) (err error)
//@   before any call io.CopyN assert writer_kind(arg0) != 1 || reader_kind(arg1) == 2
//@   before any call io.Copy assert writer_kind(arg0) != 1 || reader_kind(arg1) == 2
//@   before call (io.Reader).Read assert false
//@   property C02 C09 C10
//@   requires obj(targetFile) != obj(resForkFile) && obj(targetFile) != obj(infoFork) && obj(targetFile) != obj(counterWriter)
//@   ensures err == nil ==> written(targetFile) == old(written(targetFile)) + max(callres("(*hotline.flattenedFileObject).dataSize"), 0)
// success means every part the stream announced was read: no read of a header or fork that failed
// -- a clean end of stream included -- is turned into success (the caller publishes the file on nil)
//@   ensures err == nil ==> callres("(*hotline.flattenedFileObject).ReadFrom", 1) == nil
//@   ensures err == nil && called("encoding/binary.Read") ==> callres("encoding/binary.Read") == nil

// C09: the partial file keeps what it already holds (append, never truncate); nothing is opened or
// renamed when the final name exists; the final name appears only after a complete receive.

//@ func UploadHandler(rwc io.ReadWriter, fullPath string, fileTransfer *FileTransfer, fileStore FileStore, rLogger *slog.Logger, preserveForks bool) (err error)
//@   before any call os.OpenFile assert bitof(arg1, 10) == 1 && bitof(arg1, 9) == 0
//@   before any call (hotline.FileStore).OpenFile assert bitof(arg2, 10) == 1 && bitof(arg2, 9) == 0
//@   before any call os.OpenFile assert callres("os.Stat", 1) != nil
//@   before any call (hotline.FileStore).OpenFile assert callres("os.Stat", 1) != nil
//@   before any call (hotline.FileStore).Rename assert callres("hotline.receiveFile") == nil && callres("os.Stat", 1) != nil
//@   before any call os.Rename assert callres("hotline.receiveFile") == nil && callres("os.Stat", 1) != nil
//@   some call os.OpenFile | (hotline.FileStore).OpenFile
//@   some call os.Rename | (hotline.FileStore).Rename
//@   before call (io.ReadWriter).Read assert false

// ---------------------------------------------------------------------------------
// C14: one transaction, one Write.  The connection is never fed by a chunking copy, and the source
// of a copy must not bring its own WriteTo (io.Copy would bypass Read and write in pieces).

//@ func (s *Server) sendTransaction(t Transaction) (err error)
//@   before any call io.Copy assert false
//@   before any call io.CopyN assert false
//@   ensures ghost(connwrites) <= 1

//@ func sendBanMessage(rwc io.Writer, message string)
//@   before any call io.Copy assert !has_method(arg1, "WriteTo")
//@   requires len(message) <= 30000

// ---------------------------------------------------------------------------------
// C04 / C17: the login gate.  Requests are dispatched only after a valid handshake and a
// successful Authenticate; the ban check sits between handshake and login.

//@ func (s *Server) handleNewConnection(ctx context.Context, rwc io.ReadWriteCloser, remoteAddr string) (err error)
//@   before call (*hotline.ClientConn).handleTransaction assert callres("hotline.performHandshake") == nil && callres("(*hotline.ClientConn).Authenticate")
//@   before call (*hotline.ClientConn).Authenticate assert callres("hotline.performHandshake") == nil
//@   before call (*hotline.ClientConn).Authenticate assert !callres("(hotline.BanMgr).IsBanned", 0) || (callres("(hotline.BanMgr).IsBanned", 1) != nil && !callres("(time.Time).Before"))
//@   before call (hotline.BanMgr).IsBanned assert callres("hotline.performHandshake") == nil
//@   before any call io.Copy assert !has_method(arg1, "WriteTo")

//@ func (s *Server) handleNewConnection(ctx context.Context, rwc io.ReadWriteCloser, remoteAddr string) (err error)
//@   before call (*hotline.ClientConn).Authenticate assert arg1 == callres("(*hotline.Field).DecodeObfuscatedString") || (callres("(*hotline.Field).DecodeObfuscatedString") == "" && arg1 == "guest")
//@   before call (hotline.ClientManager).Add assert callres("(*hotline.ClientConn).Authenticate")
//@   before call (*hotline.ClientConn).Authenticate assert called_with("(*hotline.Transaction).GetField", 1, 0, 106) && same(arg2, encodedPassword)

// C02: the control connection is tokenised by ONE scanner from the login on.  A scanner reads ahead:
// bytes that arrived together with the login transaction sit in its buffer, so a second scanner
// (or buffered reader, or a direct Read) on the connection would lose them or start mid-frame --
// only for some segmentations.
//@ func (s *Server) handleNewConnection(ctx context.Context, rwc io.ReadWriteCloser, remoteAddr string) (err error)
//@   property C02
//@   before call bufio.NewScanner#1 assert same(arg0, rwc)
//@   before any call bufio.NewScanner#2 assert false
//@   before any call bufio.NewScanner#3 assert false
//@   before any call bufio.NewReader assert !same(arg0, rwc)
//@   before any call bufio.NewReaderSize assert !same(arg0, rwc)
//@   before any call (io.ReadWriteCloser).Read assert false
//@   before call (*bufio.Scanner).Bytes assert arg0 == callres("bufio.NewScanner#1")
//@   before call (*bufio.Scanner).Scan assert arg0 == callres("bufio.NewScanner#1")
// what the decoder gets is a private copy of the token: the scanner re-uses its buffer for the next
// read, and handlers keep field data (names, paths) beyond that
//@   before call (*hotline.Transaction).Write assert fresh(arg1)
//@   before call (*hotline.Transaction).Write#1 assert disjoint(arg1, callres("(*bufio.Scanner).Bytes#1"))
//@   before call (*hotline.Transaction).Write#2 assert disjoint(arg1, callres("(*bufio.Scanner).Bytes#3"))

// C03: the session loop makes progress or ends: every iteration that goes round again has handed
// a decoded transaction to its handler -- a token that cannot be decoded (a corrupted length field
// can make the tokeniser deliver an empty one without consuming input) ends the session instead of
// being skipped.
//@ func (s *Server) handleNewConnection(ctx context.Context, rwc io.ReadWriteCloser, remoteAddr string) (err error)
//@   property C03
//@   loop 2 reaches (*hotline.ClientConn).handleTransaction

// C04: the first transaction of a connection decides the login.  The login is decoded from the
// first token the connection's scanner delivers -- one Scan, not a loop that steps over "harmless"
// transactions and leaves an unauthenticated peer connected -- and a refusal is answered and ends
// the connection.
//@ func (s *Server) handleNewConnection(ctx context.Context, rwc io.ReadWriteCloser, remoteAddr string) (err error)
//@   property C04
//@   once call (*bufio.Scanner).Scan#1
//@   once call (*hotline.ClientConn).Authenticate
//@   before call (*hotline.ClientConn).Authenticate assert called("(*bufio.Scanner).Scan")

// C04: a login succeeds only for an existing account whose stored hash matches the password.

//@ func (cc *ClientConn) Authenticate(login string, password []byte) (ok bool)
//@   ensures ok ==> callres("(hotline.AccountManager).Get") != nil
//@   ensures ok == (callres("(hotline.AccountManager).Get") != nil && callres("golang.org/x/crypto/bcrypt.CompareHashAndPassword") == nil)
//@   before call (hotline.AccountManager).Get assert arg1 == login
//@   before call golang.org/x/crypto/bcrypt.CompareHashAndPassword assert same(arg1, password)

// ---------------------------------------------------------------------------------
// C07: containment.  ROOT is the root of the run; inroot / rooted / seg are the predicates of
// /verif/spec/paths.spec.

// Parsing an encoded path fills the FilePath value and nothing else.

//@ func (fp *FilePath) Write(b []byte) (n int, err error)
//@   requires fp != nil && isnil(fp.Items)
//@   modifies fp.ItemCount, fp.Items
//@   loop 1 modifies fp.Items

//@ func ReadPath(fileRoot string, filePath []byte, fileName []byte) (fullPath string, err error)
//@   property C07
//@   requires fileRoot == ROOT
//@   ensures err == nil ==> inroot(fullPath)
//@   loop 1 invariant subPath == "" || rooted(subPath)
//@   loop 1 modifies nothing
//@   modifies nothing

//@ func NewFileWrapper(fs FileStore, path string, dataOffset int64) (r *fileWrapper, err error)
//@   property C07
//@   requires inroot(path)
//@   ensures err == nil ==> r != nil && r.dataPath == path && inroot(r.dataPath)
//@   ensures err == nil && path != ROOT ==> inroot(r.rsrcPath) && inroot(r.infoPath) && inroot(r.incompletePath) && inroot(r.path) && seg(r.Name)
//@   modifies nothing

//@ define inv_fileWrapper(f) := f != nil && inroot(f.dataPath) && inroot(f.rsrcPath) && inroot(f.infoPath) && inroot(f.incompletePath) && inroot(f.path)

//@ func (f *fileWrapper) Move(newPath string) (err error)
//@   property C07
//@   requires inv_fileWrapper(f) && seg(f.Name)
//@   requires inroot(newPath)
//@   before call (hotline.FileStore).Rename assert inroot(arg1) && inroot(arg2)

//@ func (f *fileWrapper) Delete() (err error)
//@   property C07
//@   requires inv_fileWrapper(f)
//@   before call (hotline.FileStore).RemoveAll assert inroot(arg1)
//@   before call (hotline.FileStore).Remove assert inroot(arg1)

//@ func (f *fileWrapper) InfoForkWriter() (w io.WriteCloser, err error)
//@   property C07
//@   requires inv_fileWrapper(f)
//@   before call os.OpenFile assert inroot(arg0)
//@   modifies nothing
//@ func (f *fileWrapper) rsrcForkWriter() (w io.WriteCloser, err error)
//@   property C07
//@   requires inv_fileWrapper(f)
//@   before call os.OpenFile assert inroot(arg0)
//@   modifies nothing
//@ func (f *fileWrapper) incFileWriter() (w io.WriteCloser, err error)
//@   property C07
//@   requires inv_fileWrapper(f)
//@   before call os.OpenFile assert inroot(arg0)
//@   modifies nothing

//@ func (f *fileWrapper) flattenedFileObject() (r *flattenedFileObject, err error)
//@   requires f != nil && f.Ffo != nil
//@   modifies *f.Ffo

//@ func (fu *folderUpload) FormattedPath() (r string)
//@   property C07
//@   ensures relsafe(r)
//@   loop 1 modifies nothing
//@   modifies nothing

//@ func UploadFolderHandler(rwc io.ReadWriter, fullPath string, fileTransfer *FileTransfer, fileStore FileStore, rLogger *slog.Logger, preserveForks bool) (err error)
//@   property C07
//@   requires inroot(fullPath) && fullPath != ROOT
//@   before call (hotline.FileStore).Stat assert inroot(arg1)
//@   before call (hotline.FileStore).Mkdir assert inroot(arg1)
//@   before call os.Stat assert inroot(arg0)
//@   before call os.Mkdir assert inroot(arg0)
//@   before call os.OpenFile assert inroot(arg0)
//@   before call os.Rename assert inroot(arg0) && inroot(arg1)

//@ func UploadHandler(rwc io.ReadWriter, fullPath string, fileTransfer *FileTransfer, fileStore FileStore, rLogger *slog.Logger, preserveForks bool) (err error)
//@   property C07
//@   requires inroot(fullPath) && fullPath != ROOT
//@   before call os.Stat assert inroot(arg0)
//@   before call os.OpenFile assert inroot(arg0)
//@   before call (hotline.FileStore).Rename assert inroot(arg1) && inroot(arg2)

//@ func DownloadHandler(w io.Writer, fullPath string, fileTransfer *FileTransfer, fs FileStore, rLogger *slog.Logger, preserveForks bool) (err error)
//@   property C07
//@   requires inroot(fullPath) && fullPath != ROOT
//@   before call hotline.NewFileWrapper assert inroot(arg1)

// C18: the article list is built by draining each entry completely (io.ReadAll), never with one
// bare Read into a fixed buffer.
//@ func (newscat *NewsCategoryListData15) GetNewsArtListData() (r NewsArtListData)
//@   property C18
//@   before call (*hotline.NewsArtList).Read assert false
//@   before call io.ReadAll assert reader_kind(arg0) == 3

// ---------------------------------------------------------------------------------
// C03: shared maps are touched under their mutex only (a concurrent unsynchronised map write aborts
// the whole process).

//@ func (s *Server) rateLimiterFor(ipAddr string) (rl *rate.Limiter)
//@   property C03
//@   guarded_by s.rateLimitersMu: rateLimiters

//@ func (cm *MemChatManager) New(cc *ClientConn) (id ChatID)
//@   property C03
//@   guarded_by cm.mu: chats, PrivateChat.ClientConn, PrivateChat.Subject
//@ func (cm *MemChatManager) Join(id ChatID, cc *ClientConn)
//@   property C03
//@   guarded_by cm.mu: chats, PrivateChat.ClientConn, PrivateChat.Subject
//@ func (cm *MemChatManager) Leave(id ChatID, clientID [2]byte)
//@   property C03
//@   guarded_by cm.mu: chats, PrivateChat.ClientConn, PrivateChat.Subject
//@ func (cm *MemChatManager) Members(id ChatID) (r []*ClientConn)
//@   property C03
//@   guarded_by cm.mu: chats, PrivateChat.ClientConn, PrivateChat.Subject
//@ func (cm *MemChatManager) GetSubject(id ChatID) (r string)
//@   property C03
//@   guarded_by cm.mu: chats, PrivateChat.ClientConn, PrivateChat.Subject
//@ func (cm *MemChatManager) SetSubject(id ChatID, subject string)
//@   property C03
//@   guarded_by cm.mu: chats, PrivateChat.ClientConn, PrivateChat.Subject

//@ func (ftm *MemFileTransferMgr) Add(ft *FileTransfer)
//@   property C03
//@   guarded_by ftm.mu: fileTransfers
//@ func (ftm *MemFileTransferMgr) Get(id FileTransferID) (r *FileTransfer)
//@   property C03
//@   guarded_by ftm.mu: fileTransfers
//@ func (ftm *MemFileTransferMgr) Delete(id FileTransferID)
//@   property C03
//@   guarded_by ftm.mu: fileTransfers

//@ func (cftm *ClientFileTransferMgr) Add(ftType FileTransferType, ft *FileTransfer)
//@   property C03
//@   guarded_by cftm.mu: transfers
//@ func (cftm *ClientFileTransferMgr) Get(ftType FileTransferType) (r []FileTransfer)
//@   property C03
//@   guarded_by cftm.mu: transfers
//@ func (cftm *ClientFileTransferMgr) Delete(ftType FileTransferType, id FileTransferID)
//@   property C03
//@   guarded_by cftm.mu: transfers

//@ func (s *Stats) Increment(keys []int)
//@   property C03
//@   guarded_by s.mu: stats
//@ func (s *Stats) Decrement(key int)
//@   property C03
//@   guarded_by s.mu: stats
//@ func (s *Stats) Set(key int, val int)
//@   property C03
//@   guarded_by s.mu: stats
//@ func (s *Stats) Get(key int) (r int)
//@   property C03
//@   guarded_by s.mu: stats

// ---------------------------------------------------------------------------------
// C12: private chat membership.  Join adds exactly the joining client to the addressed chat, Leave
// removes exactly the leaving client and never the chat itself, other chats are untouched.

//@ func (cm *MemChatManager) Join(id ChatID, cc *ClientConn)
//@   property C12
//@   requires cm != nil && cc != nil && has(cm.chats, id) && get(cm.chats, id) != nil && !isnil(get(cm.chats, id).ClientConn)
//@   ensures has(get(cm.chats, id).ClientConn, cc.ID) && get(get(cm.chats, id).ClientConn, cc.ID) == cc
//@   ensures forall(a, 0, 256, forall(b, 0, 256, (a != cc.ID[0] || b != cc.ID[1]) ==> has(get(cm.chats, id).ClientConn, seq(a, b)) == has_old(get(cm.chats, id).ClientConn, seq(a, b))))
//@   ensures forall(k0, 0, 256, forall(k1, 0, 256, forall(k2, 0, 256, forall(k3, 0, 256, has(cm.chats, seq(k0, k1, k2, k3)) == has_old(cm.chats, seq(k0, k1, k2, k3)) && get(cm.chats, seq(k0, k1, k2, k3)) == get_old(cm.chats, seq(k0, k1, k2, k3))))))

//@ func (cm *MemChatManager) Leave(id ChatID, clientID [2]byte)
//@   property C12
//@   requires cm != nil && (has(cm.chats, id) ==> get(cm.chats, id) != nil)
//@   ensures has(cm.chats, id) ==> !has(get(cm.chats, id).ClientConn, clientID)
//@   ensures has(cm.chats, id) ==> forall(a, 0, 256, forall(b, 0, 256, (a != clientID[0] || b != clientID[1]) ==> has(get(cm.chats, id).ClientConn, seq(a, b)) == has_old(get(cm.chats, id).ClientConn, seq(a, b))))
//@   ensures forall(k0, 0, 256, forall(k1, 0, 256, forall(k2, 0, 256, forall(k3, 0, 256, has(cm.chats, seq(k0, k1, k2, k3)) == has_old(cm.chats, seq(k0, k1, k2, k3)) && get(cm.chats, seq(k0, k1, k2, k3)) == get_old(cm.chats, seq(k0, k1, k2, k3))))))

//@ func (cm *MemChatManager) New(cc *ClientConn) (id ChatID)
//@   property C12
//@   requires cm != nil && cc != nil && !isnil(cm.chats)
//@   ensures has(cm.chats, id) && get(cm.chats, id) != nil && has(get(cm.chats, id).ClientConn, cc.ID) && get(get(cm.chats, id).ClientConn, cc.ID) == cc
//@   ensures forall(a, 0, 256, forall(b, 0, 256, (a != cc.ID[0] || b != cc.ID[1]) ==> !has(get(cm.chats, id).ClientConn, seq(a, b))))
// the new chat's ID is not the public chat's (all zero: HandleChatSend routes that to everybody)
// and was not in use: every chat that was open stays as it was, for whatever the random source yields
//@   ensures !(id[0] == 0 && id[1] == 0 && id[2] == 0 && id[3] == 0) && !has_old(cm.chats, id)
//@   ensures forall(k0, 0, 256, forall(k1, 0, 256, forall(k2, 0, 256, forall(k3, 0, 256, (k0 != id[0] || k1 != id[1] || k2 != id[2] || k3 != id[3]) ==> has(cm.chats, seq(k0, k1, k2, k3)) == has_old(cm.chats, seq(k0, k1, k2, k3)) && get(cm.chats, seq(k0, k1, k2, k3)) == get_old(cm.chats, seq(k0, k1, k2, k3))))))
//@   loop 1 modifies &randID

// ---------------------------------------------------------------------------------
// C08: a granted download carries the flattened-file header (unless it is a preview), then the
// data fork from the resume offset to its end, then the resource fork header (unless resuming)
// and the resource fork.  Stated over stream ghost state (see plugin_streams.go): at each write
// what has been written so far and where the source stands; at the exit, failure only when the
// environment failed.

//@ func DownloadHandler(w io.Writer, fullPath string, fileTransfer *FileTransfer, fs FileStore, rLogger *slog.Logger, preserveForks bool) (err error)
//@   property C08
//@   let off := ite(fileTransfer.FileResumeData != nil, u32(bytes(fileTransfer.FileResumeData.ForkInfoList[0].DataSize)), 0)
//@   let nhdr := ite(isnil(fileTransfer.Options), 1, 0)
//@   requires fileTransfer != nil && (fileTransfer.FileResumeData != nil ==> len(fileTransfer.FileResumeData.ForkInfoList) >= 1)
//@   before call io.Copy#1 assert same(arg0, w) && isnil(fileTransfer.Options) && wcalls(w) == 0 && written(w) == 0
//@   before call (*bufio.Reader).Discard assert spos(arg0) == 0
//@   before call (*bufio.Reader).Discard assert arg1 == off
//@   before call io.Copy#2 assert same(arg0, w)
//@   before call io.Copy#2 assert wcalls(w) == nhdr
//@   before call io.Copy#2 assert spos(arg1) == off
//@   before call io.Copy#2 assert isnil(fileTransfer.Options) ==> written(w) == len(wire_FFO(callres("hotline.NewFileWrapper", 0).Ffo))
//@   before call io.Copy#2 assert !isnil(fileTransfer.Options) ==> written(w) == 0
//@   before call encoding/binary.Write assert same(arg0, w) && fileTransfer.FileResumeData == nil && wcalls(w) == nhdr + 1
//@   before call encoding/binary.Write assert spos(callarg("io.Copy#2", 1)) == ssize(callarg("io.Copy#2", 1))
//@   before call io.Copy#3 assert same(arg0, w) && wcalls(w) == nhdr + 1 + ite(fileTransfer.FileResumeData == nil, 1, 0)
//@   before call io.Copy#3 assert spos(callarg("io.Copy#2", 1)) == ssize(callarg("io.Copy#2", 1)) && spos(arg1) == 0
//@   ensures err == nil ==> wcalls(w) == old(nhdr) + 2 + ite(old(fileTransfer.FileResumeData) == nil, 1, 0)
//@   ensures err != nil ==> ghost(envfail) != 0 || ghost(shortskip) != 0

// Proved from the body (fresh wrapper, fresh header object with its cursor at 0, header invariant
// from flattenedFileObject's contract).  Taken on trust: the last element of the addressed path
// fits the 16-bit name size field (names arrive in fields of at most 65535 bytes; file systems
// allow 255).
//@ func NewFileWrapper(fs FileStore, path string, dataOffset int64) (r *fileWrapper, err error)
//@   property C01 C08 C10 C11
//@   after call path/filepath.Base assume len(res0) <= 65535
//@   ensures (err == nil) == (r != nil)
//@   ensures err == nil ==> r.Ffo != nil && r.Ffo.readOffset == 0 && inv_FFO(r.Ffo) && r.dataOffset == dataOffset && fresh(r) && fresh(r.Ffo) && disjoint(r, r.Ffo)
//@   modifies nothing

// The announced sizes: data size = size on disk - resume offset (both Stat branches), transfer
// size = header + data + resource - offset.

// The header object a transfer serialises is built here: fixed "FILP" / version / "DATA" parts,
// the information fork either parsed from the stored .info_<name> side file or synthesised from
// the file's own name, and the cursor left where it was.  The one thing taken on trust is the
// content of the side file on disk (written earlier by the server through the same codec).
//@ define wf_infofork(b) := len(b) >= 72 && len(b) <= 65535 && len(b) >= 72 + u16(bytes(b),70) && (len(b) > 72 + u16(bytes(b),70) ==> len(b) >= 74 + u16(bytes(b),70) && len(b) >= 74 + u16(bytes(b),70) + u16(bytes(b), 72 + u16(bytes(b),70)))

//@ func (f *fileWrapper) flattenedFileObject() (r *flattenedFileObject, err error)
//@   property C01 C08 C10 C11
//@   requires f != nil && f.Ffo != nil && len(f.Name) <= 65535 && inv_InfoFork(f.Ffo.FlatFileInformationFork)
//@   after call (hotline.FileStore).ReadFile assume res1 == nil ==> wf_infofork(res0) && fresh(res0)
//@   ensures err == nil ==> r == old(f.Ffo) && r.readOffset == old(f.Ffo.readOffset)
//@   ensures err == nil ==> bytes(r.FlatFileHeader.Format) == "FILP" && bytes(r.FlatFileHeader.Version) == seq(0,1) && bytes(r.FlatFileHeader.RSVD) == zeros(16)
//@   ensures err == nil ==> bytes(r.FlatFileDataForkHeader.ForkType) == "DATA"
//@   ensures err == nil ==> len(r.FlatFileInformationFork.Name) <= 65535
//@   ensures err == nil ==> len(r.FlatFileInformationFork.Comment) <= 65535
//@   ensures err == nil ==> u16(bytes(r.FlatFileInformationFork.CommentSize)) == len(r.FlatFileInformationFork.Comment)
//@   modifies *f.Ffo

//@ func NewTime(t time.Time) (b Time)
//@   modifies nothing

// Date stamp: year 2, milliseconds 2 (always zero), seconds since the start of that year 4.
//@ func NewTime(t time.Time) (b Time)
//@   property C01
//@   before call PutUint16 assert arg2 == callres("(time.Time).Year#2") % 65536
//@   before call time.Date assert arg0 == callres("(time.Time).Year#1") && arg1 == 1 && arg2 == 1 && arg3 == 0 && arg4 == 0 && arg5 == 0 && arg6 == 0
//@   before call (time.Time).Sub assert same(arg0, t) && same(arg1, callres("time.Date"))
//@   ensures b[2] == 0 && b[3] == 0
//@   ensures b[0] == callarg("PutUint16", 1)[0] && b[1] == callarg("PutUint16", 1)[1] && b[4] == callarg("PutUint32", 1)[0] && b[7] == callarg("PutUint32", 1)[3]
//@ func fileTypeFromInfo(info fs.FileInfo) (ft fileType, err error)
//@   modifies nothing

//@ func (f *fileWrapper) flattenedFileObject() (r *flattenedFileObject, err error)
//@   property C08
//@   before call PutUint32#1 assert arg2 == (callres("(io/fs.FileInfo).Size#1") - f.dataOffset) % 4294967296
//@   before call PutUint32#2 assert arg2 == (callres("(io/fs.FileInfo).Size#2") - f.dataOffset) % 4294967296

//@ func (ffo *flattenedFileObject) TransferSize(offset int64) (r []byte)
//@   requires ffo != nil && ffo.readOffset == 0 && inv_FFO(ffo)
//@   ensures len(r) == 4 && u32(bytes(r)) == (u32(bytes(ffo.FlatFileDataForkHeader.DataSize)) + u32(bytes(ffo.FlatFileResForkHeader.DataSize)) + len(wire_FFO(ffo)) - offset) % 4294967296
//@   ensures ffo.readOffset == 0 && wire_FFO(ffo) == old(wire_FFO(ffo))
//@   modifies nothing
//@   nopanic

// ---------------------------------------------------------------------------------
// C10: folder transfers.  Both walk callbacks treat an entry the same way -- it counts / gets an
// item header exactly when its name does not start with a dot -- and neither prunes the walk
// (filepath.SkipDir); the announced count is the number of counted entries minus the root.

//@ func CalcItemCount$1(path string, info os.FileInfo, err error) (r error)
//@   property C10
//@   before call strings.HasPrefix assert arg1 == "." && arg0 == callres("Name")
//@   ensures r == nil || same(r, err)
//@   ensures err == nil ==> r == nil && *itemCount == (old(*itemCount) + ite(callres("strings.HasPrefix"), 0, 1)) % 65536
//@   ensures err != nil ==> *itemCount == old(*itemCount)

//@ func CalcItemCount(filePath string) (r []byte, err error)
//@   property C10
//@   before call PutUint16 assert arg2 == (itemCount - 1) % 65536
//@   before call path/filepath.Walk assert arg0 == filePath && itemCount == 0

// The item header: type 1 for a folder, 0 for a file; its size field covers type and path.

// the count prefix is the number of sections of the path, and every section -- an empty one
// included -- gets its item (2 zero bytes, length, name): count and items stay in step
//@ func EncodeFilePath(filePath string) (r []byte)
//@   property C01 C10
//@   before call PutUint16 assert arg2 == len(callres("strings.Split")) % 65536 && same(arg1, pathItemCount)
//@   loop 1 reaches builtin.append
//@   ensures len(r) >= 2
//@   modifies nothing
//@   loop 1 invariant len(bytes) >= 2
//@   loop 1 modifies nothing

//@ func NewFileHeader(fileName string, isDir bool) (fh FileHeader)
//@   property C10
//@   ensures fh.Type[0] == 0 && fh.Type[1] == ite(isDir, 1, 0) && fh.readOffset == 0
//@   ensures u16(bytes(fh.Size)) == (len(fh.FilePath) + 2) % 65536
// the path that is encoded is the relative path the caller gave, unedited (names may begin or end
// with dots), and the header carries that encoding
//@   before call hotline.EncodeFilePath assert arg0 == old(fileName)
//@   ensures same(fh.FilePath, callres("hotline.EncodeFilePath"))
//@   modifies nothing

// Decoding the client's resume data touches the decoded value only.

//@ func (frd *FileResumeData) UnmarshalBinary(b []byte) (err error)
//@   requires frd != nil && isnil(frd.ForkInfoList)
//@   requires len(b) >= 42 && len(b) >= 42 + 16*b[41]
//@   ensures err == nil ==> len(frd.ForkInfoList) == old(b[41])
//@   ensures err == nil && old(b[41]) >= 1 ==> bytes(frd.ForkInfoList[0].Fork) == old(bytes(b)[42:46]) && bytes(frd.ForkInfoList[0].DataSize) == old(bytes(b)[46:50])
//@   modifies frd.Format, frd.Version, frd.ForkCount, frd.ForkInfoList
//@   loop 1 invariant 0 <= i && i <= frd.ForkCount[1] && frd.ForkCount[1] == old(b[41]) && len(frd.ForkInfoList) == i
//@   loop 1 invariant i >= 1 ==> bytes(frd.ForkInfoList[0].Fork) == old(bytes(b)[42:46]) && bytes(frd.ForkInfoList[0].DataSize) == old(bytes(b)[46:50])
//@   loop 1 invariant isnil(frd.ForkInfoList) || fresh(frd.ForkInfoList)
//@   loop 1 modifies frd.ForkInfoList
//@   nopanic

// One visited entry of a folder download: header only for a visible entry that is not the root;
// then the client's choice: next file sends nothing more; otherwise the size prefix
// TransferSize(offset), the flattened header, the data fork from the offset to its end.

//@ func DownloadFolderHandler$1(path string, info os.FileInfo, err error) (r error)
//@   property C10
//@   let conn := *rwc
//@   requires *i >= 0 && *i < 1000000000
//@   before call strings.HasPrefix assert arg1 == "." && arg0 == callres("Name#1")
//@   before call io.Copy#1 assert err == nil
//@   before call io.Copy#1 assert !callres("strings.HasPrefix")
//@   before call io.Copy#1 assert *i != 1
//@   before call io.Copy#1 assert same(arg0, conn)
//@   before call io.Copy#1 assert wcalls(conn) == 0
//@   before call hotline.NewFileHeader assert arg1 == callres("IsDir#1")
//@   before call (io.ReadWriter).Write assert wcalls(conn) == 1
//@   before call (io.ReadWriter).Write assert same(arg1, callres("(*hotline.flattenedFileObject).TransferSize#2"))
//@   before call (io.ReadWriter).Write assert callarg("(*hotline.flattenedFileObject).TransferSize#2", 1) == dataOffset
// the offset is applied once: the item's wrapper describes the whole file (offset 0), and the size
// prefix is TransferSize(offset) of that wrapper
//@   before call hotline.NewFileWrapper assert arg2 == 0
//@   before call (*hotline.flattenedFileObject).TransferSize#2 assert arg0 == callres("hotline.NewFileWrapper", 0).Ffo
//@   before call (io.ReadWriter).Write assert (*nextAction)[1] == 2 && callarg("(*hotline.FileResumeData).UnmarshalBinary", 1)[41] >= 1 ==> dataOffset == u32(bytes(callarg("(*hotline.FileResumeData).UnmarshalBinary", 1)), 46)
//@   before call (io.ReadWriter).Write assert (*nextAction)[1] != 2 ==> dataOffset == 0
//@   before call (io.ReadWriter).Write assert same(arg0, conn)
//@   before call io.Copy#2 assert same(arg0, conn) && wcalls(conn) == 2
//@   before call io.Copy#3 assert same(arg0, conn) && wcalls(conn) == 3 && spos(arg1) == dataOffset
//@   before call (hotline.FileStore).Open assert arg1 == path
//@   ensures r != nil ==> same(r, err) || ghost(envfail) != 0
//@   ensures err != nil ==> same(r, err) && wcalls(conn) == 0
//@   ensures err == nil && ghost(envfail) == 0 ==> (wcalls(conn) >= 1) == (!callres("strings.HasPrefix") && *i != 1)
//@   ensures *i == old(*i) + 1

// Folder upload: a partial file is appended to (never truncated), a name becomes final only
// after a complete receive, the action sent for an item follows what is on disk (complete: next,
// partial: resume, absent: send), the resume offset is the partial file's size, folders are only
// created when missing.

//@ func UploadFolderHandler(rwc io.ReadWriter, fullPath string, fileTransfer *FileTransfer, fileStore FileStore, rLogger *slog.Logger, preserveForks bool) (err error)
//@   property C09 C10
//@   before any call os.OpenFile assert bitof(arg1, 10) == 1 && bitof(arg1, 9) == 0
//@   before any call (hotline.FileStore).OpenFile assert bitof(arg2, 10) == 1 && bitof(arg2, 9) == 0
//@   some call os.OpenFile | (hotline.FileStore).OpenFile
//@   before call os.Rename#1 assert callres("hotline.receiveFile#1") == nil
//@   before call os.Rename#2 assert callres("hotline.receiveFile#2") == nil
//@   before call os.Mkdir assert callres("os.Stat#1", 1) != nil
//@   before call (io.ReadWriter).Write#3 assert len(arg1) == 2 && arg1[0] == 0 && arg1[1] == ite(callres("os.Stat#3", 1) == nil, 2, ite(callres("os.Stat#2", 1) == nil, 3, 1))
//@   before call hotline.NewForkInfoList assert u32(bytes(arg0)) == callres("Size") % 4294967296
//@   before call hotline.NewFileWrapper assert callres("os.Stat#2", 1) != nil && callres("os.Stat#3", 1) != nil

// ---------------------------------------------------------------------------------
// C11: a file's side files travel or vanish with it.  Move renames the data fork and then each of
// the three side files from the wrapper's own paths to the name derived from the wrapper's CURRENT
// name in the new directory; Delete removes the same four paths.

//@ func (f *fileWrapper) Move(newPath string) (err error)
//@   property C11
//@   requires f != nil
//@   before call (hotline.FileStore).Rename#1 assert arg1 == f.dataPath && arg2 == pjoin2(newPath, f.Name)
//@   before call (hotline.FileStore).Rename#2 assert arg1 == f.incompletePath && arg2 == pjoin2(newPath, strcat(f.Name, ".incomplete"))
//@   before call (hotline.FileStore).Rename#3 assert arg1 == f.rsrcPath && arg2 == pjoin2(newPath, pfmt(".rsrc_%s", f.Name))
//@   before call (hotline.FileStore).Rename#4 assert arg1 == f.infoPath && arg2 == pjoin2(newPath, pfmt(".info_%s", f.Name))
//@   ensures err == nil ==> ghost(effects) == 4

//@ func (f *fileWrapper) Delete() (err error)
//@   property C11
//@   requires f != nil
//@   before call (hotline.FileStore).RemoveAll assert arg1 == f.dataPath
//@   before call (hotline.FileStore).Remove#1 assert arg1 == f.incompletePath
//@   before call (hotline.FileStore).Remove#2 assert arg1 == f.rsrcPath
//@   before call (hotline.FileStore).Remove#3 assert arg1 == f.infoPath
//@   ensures err == nil ==> ghost(effects) == 4

// The wrapper's side-file paths are derived from the addressed path.

//@ func NewFileWrapper(fs FileStore, path string, dataOffset int64) (r *fileWrapper, err error)
//@   property C11
//@   before call path/filepath.Join#1 assert arg0[0] == pdir(path) && arg0[1] == pfmt(".rsrc_%s", pbase(path))
//@   before call path/filepath.Join#2 assert arg0[0] == pdir(path) && arg0[1] == pfmt(".info_%s", pbase(path))
//@   before call path/filepath.Join#3 assert arg0[0] == pdir(path) && arg0[1] == strcat(pbase(path), ".incomplete")

// The listing: an entry is listed only if the ignore filter passes it, under its name with a
// partial-upload suffix removed and Mac-Roman encoded; the name length field is the encoded length
// (precondition of the FileNameWithInfo cursor at the drain site); folder item counts use the same
// filter.

//@ func GetFileNameList(path string, ignoreList []string) (fields []Field, err error)
//@   property C01 C11
//@   before call hotline.ignoreFile#1 assert arg0 == callres("Name#1") && same(arg1, ignoreList)
//@   before call hotline.ignoreFile#2 assert same(arg1, ignoreList)
//@   before call hotline.ignoreFile#3 assert same(arg1, ignoreList)
//@   before call hotline.NewField assert !callres("hotline.ignoreFile#1") && arg0[0] == 0 && arg0[1] == 200 && same(arg1, callres("io.ReadAll", 0))
//@   before call strings.ReplaceAll assert arg1 == ".incomplete" && arg2 == ""
//@   before call (*golang.org/x/text/encoding.Encoder).String assert arg1 == callres("strings.ReplaceAll")
//@   before call hotline.NewFileWrapper assert arg2 == 0
//@   loop 1 invariant isnil(fields) || (fresh(fields) && disjoint(fields, files))
//@   loop 1 modifies nothing
//@   loop 2 modifies nothing
//@   loop 3 modifies nothing

// Helpers of the listing leave memory alone.

//@ func ignoreFile(fileName string, ignoreList []string) (r bool)
//@   modifies nothing
//@   loop 1 modifies nothing

//@ func fileTypeFromFilename(filename string) (ft fileType)
//@   modifies nothing

// The size shown for a file without resource fork is its size on disk (minus the wrapper's offset).

//@ func (f *fileWrapper) TotalSize() (r []byte)
//@   requires f != nil
//@   ensures len(r) == 4
//@   modifies nothing

//@ func (f *fileWrapper) TotalSize() (r []byte)
//@   property C11
//@   before call PutUint32 assert callres("Stat#1", 1) == nil && callres("Stat#2", 1) != nil ==> arg2 == (callres("Size#1") - f.dataOffset) % 4294967296

// ---------------------------------------------------------------------------------
// C01 / C14: a transaction is serialised without being consumed.  Read advances the transaction's
// own cursor only -- the fields (and their cursors) are left alone, so the same transaction can be
// read again, sent to several clients, and measured (Size) at any time; the fixed 22-byte header
// carries the flags, type, ID, error code, the size twice and the field count.

//@ func (t *Transaction) Size() (r []byte)
//@   requires t != nil
//@   ensures len(r) == 4 && fresh(r)
//@   modifies nothing
//@   loop 1 modifies nothing

//@ func (t *Transaction) Read(p []byte) (n int, err error)
//@   cursor_flow readOffset
//@   requires t != nil && t.readOffset >= 0 && len(t.Fields) <= 65535
//@   requires forall(k, 0, len(t.Fields), t.Fields[k].readOffset >= 0 && len(t.Fields[k].Data) <= 65535 && u16(bytes(t.Fields[k].FieldSize)) == len(t.Fields[k].Data))
//@   ensures err == nil ==> t.readOffset == old(t.readOffset) + n && n <= len(p)
//@   ensures err != nil ==> n == 0 && t.readOffset == old(t.readOffset)
//@   let hdr := err == nil && old(t.readOffset) == 0 && len(p) >= 22
//@   ensures hdr ==> n >= 22
//@   ensures hdr ==> p[0] == t.Flags && p[1] == t.IsReply
//@   ensures hdr ==> bytes(p)[2:4] == bytes(t.Type) && bytes(p)[4:8] == bytes(t.ID) && bytes(p)[8:12] == bytes(t.ErrorCode)
//@   ensures hdr ==> bytes(p)[12:16] == bytes(p)[16:20] && u16(bytes(p), 20) == len(t.Fields)
//@   modifies t.readOffset, p
//@   loop 1 invariant bbuf.off >= 0 && len(bbuf.buf) >= bbuf.off
//@   loop 1 modifies *bbuf

// Decoding a transaction: the header fields are the corresponding sub-ranges of the input, the
// whole input is consumed, and nothing but the transaction is written.  The input is a complete
// record (transactionScanner delivers exactly 20 + total size bytes).

//@ func (t *Transaction) Write(p []byte) (n int, err error)
//@   requires t != nil && isnil(t.Fields)
//@   requires len(p) >= 22 ==> len(p) == 20 + u32(bytes(p), 12) && u32(bytes(p), 12) <= 4294967275
//@   ensures len(p) < 22 ==> err != nil
//@   ensures err == nil ==> n == len(p) && t.Flags == old(p[0]) && t.IsReply == old(p[1])
//@   ensures err == nil ==> bytes(t.Type) == old(bytes(p)[2:4]) && bytes(t.ID) == old(bytes(p)[4:8]) && bytes(t.ErrorCode) == old(bytes(p)[8:12])
//@   ensures err == nil ==> bytes(t.TotalSize) == old(bytes(p)[12:16]) && bytes(t.DataSize) == old(bytes(p)[16:20]) && bytes(t.ParamCount) == old(bytes(p)[20:22])
//@   modifies t.Flags, t.IsReply, t.Type, t.ID, t.ErrorCode, t.TotalSize, t.DataSize, t.ParamCount, t.Fields
//@   loop 1 modifies t.Fields
//@   nopanic
// every field of the parameter area can be delivered as one token: the tokeniser's limit is at
// least the length of that area (a field is 4 + up to 65535 bytes, more than bufio's default
// limit of 64 KiB), it splits with FieldScanner over exactly p[22:], and each token is what the
// field decoder gets
//@   before call (*bufio.Scanner).Buffer assert arg2 >= len(p) - 22
//@   before call (*bufio.Scanner).Scan assert called("(*bufio.Scanner).Buffer") && called("(*bufio.Scanner).Split")
//@   before call bytes.NewReader assert ref(arg0) == ref(p) && off(arg0) == off(p) + 22 && len(arg0) == len(p) - 22
//@   before call (*hotline.Field).Write assert same(arg1, callres("(*bufio.Scanner).Bytes"))

// C07: an alias stores the path it was given.  The handler proves that path to be inside the file
// root; a target rewritten here (made relative, resolved, joined) would be resolved by the OS
// against wherever the alias lives later -- e.g. after a move to a shallower folder -- and could
// climb out of the root.

//@ func (fs *OSFileStore) Symlink(oldname string, newname string) (err error)
//@   property C07
//@   before call os.Symlink assert arg0 == oldname && arg1 == newname

// C09: the upload handler never removes a partial file: whatever earlier connections delivered
// stays where a resumed upload expects it.
//@ func UploadHandler(rwc io.ReadWriter, fullPath string, fileTransfer *FileTransfer, fileStore FileStore, rLogger *slog.Logger, preserveForks bool) (err error)
//@   property C09
//@   before any call (hotline.FileStore).Remove assert false
//@   before any call (hotline.FileStore).RemoveAll assert false
//@   before any call os.Remove assert false
//@   before any call os.RemoveAll assert false

// C14: a transaction is handed to the connection by one blocking Write.  A write deadline would
// turn a slow reader into a partial Write after which the connection stays in use: later
// transactions would follow half a frame.
//@ func (s *Server) sendTransaction(t Transaction) (err error)
//@   property C14
//@   before any call SetWriteDeadline assert false
//@   before any call SetDeadline assert false

// C13: a notice for "the others" goes to every registered client except the sender: each entry of
// the client list with a different ID gets one copy (every iteration with c.ID != cc.ID appends),
// and nobody else does.
//@ func (cc *ClientConn) NotifyOthers(t Transaction) (trans []Transaction)
//@   property C13 C17
//@   requires cc != nil
//@   before call builtin.append assert c.ID != cc.ID
//@   loop 1 reaches builtin.append when c.ID != cc.ID
// ... whatever the size of the list (a departing client has already been removed from it when its
// "user left" notice is built: a single remaining user is still told)
//@   loop 1 always
//@   loop 1 complete

// ---------------------------------------------------------------------------------
// C13 / C14 / C17: leaving, broadcasting, dispatching.
// Disconnect removes exactly this client from the registry BEFORE it builds the user-left notices
// (so the leaver is not among the recipients and later lookups of its ID fail), sends one notice
// per remaining client, and closes the connection on every path.

//@ func (cc *ClientConn) Disconnect()
//@   property C13 C17
//@   requires cc != nil
//@   before call (hotline.ClientManager).Delete assert arg1 == old(cc.ID)
//@   before call hotline.NewTransaction assert arg0[0] == 1 && arg0[1] == 46 && callarg("(hotline.ClientManager).Delete", 1) == old(cc.ID)
//@   before call hotline.NewField assert arg0[0] == 0 && arg0[1] == 103 && ptsto(arg1, cc.ID) && len(arg1) == 2
//@   before call (*hotline.ClientConn).NotifyOthers assert arg0 == cc
//@   loop 1 reaches send
//@   ensures called("Close") && called("NotifyOthers") && called("(hotline.ClientManager).Delete")

// A broadcast builds one transaction of the given type per registered client, addressed to it.

//@ func (cc *ClientConn) SendAll(t [2]byte, fields ...Field)
//@   property C12 C13
//@   requires cc != nil
//@   before call hotline.NewTransaction assert arg0 == t && arg1 == c.ID
//@   loop 1 reaches hotline.NewTransaction
//@   loop 1 reaches send

//@ func (s *Server) SendAll(t TranType, fields ...Field)
//@   property C12 C13
//@   requires s != nil
//@   before call hotline.NewTransaction assert arg0 == t && arg1 == c.ID
//@   loop 1 reaches hotline.NewTransaction
//@   loop 1 reaches send

// Every transaction a handler returns is put on the outbox; any request but a keep-alive resets
// the idle timer under the connection's mutex.

//@ func (cc *ClientConn) handleTransaction(transaction Transaction)
//@   property C13 C14
//@   requires cc != nil
//@   loop 1 reaches send
//@   guarded_by cc.mu: IdleTime

// C13: the "no longer away" notice carries the flags the server stores at that moment (the away bit
// already cleared), the stored name and icon -- what a later user list would show.
//@ func (cc *ClientConn) handleTransaction(transaction Transaction)
//@   property C13
//@   before call hotline.NewField assert arg0[0] == 0 && arg0[1] == 112 ==> ptsto(arg1, cc.Flags) && len(arg1) == 2 && bitof(u16(bytes(cc.Flags)), 0) == 0
//@   before call hotline.NewField assert arg0[0] == 0 && arg0[1] == 102 ==> same(arg1, cc.UserName)
//@   before call hotline.NewField assert arg0[0] == 0 && arg0[1] == 104 ==> same(arg1, cc.Icon)
//@   before call hotline.NewField assert arg0[0] == 0 && arg0[1] == 103 ==> ptsto(arg1, cc.ID) && len(arg1) == 2
//@   before call (*hotline.ClientConn).SendAll assert arg1[0] == 1 && arg1[1] == 45 && bitof(u16(bytes(cc.Flags)), 0) == 0

//@ func (ft *FileTransfer) ItemCount() (r int)
//@   property C10
//@   requires ft != nil && len(ft.FolderItemCount) >= 2
//@   ensures r == u16(bytes(ft.FolderItemCount))
//@   modifies nothing
//@   nopanic

//@ func (f *Field) DecodeObfuscatedString() (r string)
//@   property C01 C15
//@   before call hotline.EncodeString assert same(arg0, f.Data)

// ---------------------------------------------------------------------------------
// C07 / C09 / C20: the file store is a pass-through.  Every method hands the operating system
// exactly the path(s), flags and data it was given -- the containment, append / no-truncate and
// atomic-replace arguments are made about the values the callers pass, so they hold for what
// reaches the OS only if nothing is rewritten here.

//@ func (fs *OSFileStore) Mkdir(name string, perm os.FileMode) (err error)
//@   property C07
//@   before call os.Mkdir assert arg0 == name && arg1 == perm
// (C08 / C11: the sizes and kinds the server reports are those of the file a name resolves to --
// Stat follows an alias, as Open does when the bytes are sent)
//@ func (fs *OSFileStore) Stat(name string) (fi os.FileInfo, err error)
//@   property C07 C08 C11
//@   before call os.Stat assert arg0 == name
//@   before any call os.Lstat assert false
//@ func (fs *OSFileStore) Open(name string) (f *os.File, err error)
//@   property C07 C08
//@   before call os.Open assert arg0 == name
//@ func (fs *OSFileStore) RemoveAll(name string) (err error)
//@   property C07
//@   before call os.RemoveAll assert arg0 == name
//@ func (fs *OSFileStore) Remove(name string) (err error)
//@   property C07
//@   before call os.Remove assert arg0 == name
//@ func (fs *OSFileStore) Create(name string) (f *os.File, err error)
//@   property C07
//@   before call os.Create assert arg0 == name
//@ func (fs *OSFileStore) WriteFile(name string, data []byte, perm fs.FileMode) (err error)
//@   property C07
//@   before call os.WriteFile assert arg0 == name && same(arg1, data) && arg2 == perm
//@ func (fs *OSFileStore) Rename(oldpath string, newpath string) (err error)
//@   property C07 C09
//@   before call os.Rename assert arg0 == oldpath && arg1 == newpath
//@ func (fs *OSFileStore) ReadFile(name string) (b []byte, err error)
//@   property C07
//@   before call os.ReadFile assert arg0 == name
//@ func (fs *OSFileStore) OpenFile(name string, flag int, perm fs.FileMode) (f *os.File, err error)
//@   property C07 C09
//@   before call os.OpenFile assert arg0 == name && arg1 == flag && arg2 == perm

// C14: a server-initiated transaction is a request (not a reply) of the given type, addressed to
// the given client, carrying exactly the given fields, with no error code.
//@ func NewTransaction(t TranType, clientID ClientID, fields ...Field) (r Transaction)
//@   property C12 C13 C14
//@   ensures r.Type == t && r.ClientID == clientID && same(r.Fields, fields) && r.IsReply == 0 && r.Flags == 0
//@   ensures bytes(r.ErrorCode) == zeros(4) && r.readOffset == 0
//@   modifies nothing

// C04 / C15: a password is hashed, and checked, exactly as given: no truncation, no normalisation
// (the login path hands Authenticate the password field's bytes, Authenticate hands bcrypt its
// argument, HashAndSalt hashes its argument).
//@ func HashAndSalt(pwd []byte) (r string)
//@   property C04 C15
//@   before call golang.org/x/crypto/bcrypt.GenerateFromPassword assert same(arg0, pwd)

// Resume data (field 203): "RFLT", version 2 bytes, 34 reserved, fork count 2, then 16 bytes per
// fork: fork type 4, offset 4, 8 reserved.  The encoder emits exactly the object's fields in that
// order (the clause covers the magic, version, count, and each entry's fork type and offset; the
// reserved bytes are not under it); the constructors write the magic, version 1, the number of
// list entries, "DATA" and the given offset.
//@ func (frd *FileResumeData) BinaryMarshal() (r []byte, err error)
//@   property C01 C09
//@   requires frd != nil
//@   ensures err == nil && len(r) == 42 + 16*len(frd.ForkInfoList)
//@   ensures bytes(r)[0:4] == bytes(frd.Format) && bytes(r)[4:6] == bytes(frd.Version) && bytes(r)[40:42] == bytes(frd.ForkCount)
//@   ensures forall(j, 0, len(frd.ForkInfoList), r[42+16*j+0] == frd.ForkInfoList[j].Fork[0] && r[42+16*j+1] == frd.ForkInfoList[j].Fork[1] && r[42+16*j+2] == frd.ForkInfoList[j].Fork[2] && r[42+16*j+3] == frd.ForkInfoList[j].Fork[3] && r[42+16*j+4] == frd.ForkInfoList[j].DataSize[0] && r[42+16*j+5] == frd.ForkInfoList[j].DataSize[1] && r[42+16*j+6] == frd.ForkInfoList[j].DataSize[2] && r[42+16*j+7] == frd.ForkInfoList[j].DataSize[3])
//@   loop 1 invariant buf.off == 0 && len(buf.buf) == 42 + 16*(rangeindex+1) && fresh(buf.buf) && disjoint(buf.buf, &buf) && -1 <= rangeindex && rangeindex + 1 <= len(frd.ForkInfoList)
//@   loop 1 invariant bytes(buf.buf)[0:4] == bytes(frd.Format) && bytes(buf.buf)[4:6] == bytes(frd.Version) && bytes(buf.buf)[40:42] == bytes(frd.ForkCount)
//@   loop 1 invariant forall(j, 0, rangeindex+1, buf.buf[42+16*j+0] == frd.ForkInfoList[j].Fork[0] && buf.buf[42+16*j+1] == frd.ForkInfoList[j].Fork[1] && buf.buf[42+16*j+2] == frd.ForkInfoList[j].Fork[2] && buf.buf[42+16*j+3] == frd.ForkInfoList[j].Fork[3] && buf.buf[42+16*j+4] == frd.ForkInfoList[j].DataSize[0] && buf.buf[42+16*j+5] == frd.ForkInfoList[j].DataSize[1] && buf.buf[42+16*j+6] == frd.ForkInfoList[j].DataSize[2] && buf.buf[42+16*j+7] == frd.ForkInfoList[j].DataSize[3])
//@   loop 1 modifies &buf
//@   modifies nothing

//@ func NewForkInfoList(b []byte) (r *ForkInfoList)
//@   property C01 C09
//@   requires len(b) >= 4
//@   ensures r != nil && fresh(r) && bytes(r.Fork) == "DATA" && bytes(r.DataSize) == bytes(b)[0:4] && bytes(r.RSVDA) == zeros(4) && bytes(r.RSVDB) == zeros(4)
//@   modifies nothing
//@   nopanic

//@ func NewFileResumeData(list []ForkInfoList) (r *FileResumeData)
//@   property C01 C09
//@   requires len(list) <= 255
//@   ensures r != nil && fresh(r) && bytes(r.Format) == "RFLT" && bytes(r.Version) == seq(0,1) && bytes(r.RSVD) == zeros(34)
//@   ensures r.ForkCount[0] == 0 && r.ForkCount[1] == len(list) && same(r.ForkInfoList, list)
//@   modifies nothing

// C07: the root a client's file requests are resolved against is the account's own root whenever
// one is configured -- whatever the state of the file system -- and the shared root only otherwise.
//@ func (cc *ClientConn) FileRoot() (r string)
//@   property C07
//@   requires cc != nil && cc.Account != nil && cc.Server != nil
//@   ensures len(cc.Account.FileRoot) != 0 ==> r == cc.Account.FileRoot
//@   ensures len(cc.Account.FileRoot) == 0 ==> r == cc.Server.Config.FileRoot
//@   modifies nothing

// C05: which folders are drop boxes / upload folders (the rules the view-drop-boxes and
// upload-anywhere privileges govern) is decided by the declared last item of the path: its name,
// lower-cased, CONTAINS "drop box" / "upload" -- "Admin Drop Box" and "Uploads (staff)" count.
//@ func (fp *FilePath) IsDropbox() (r bool)
//@   property C05
//@   requires fp != nil
//@   before call strings.Contains assert arg0 == callres("strings.ToLower") && arg1 == "drop box"
//@ func (fp *FilePath) IsUploadDir() (r bool)
//@   property C05
//@   requires fp != nil
//@   before call strings.Contains assert arg0 == callres("strings.ToLower") && arg1 == "upload"

// C18: a decoded news path has exactly as many components as its count field says -- one per
// scanned name, empty names included -- so the component a request addresses last is the one the
// client sent last.
//@ func (f *Field) DecodeNewsPath() (r []string, err error)
//@   property C01 C18
//@   requires f != nil && (len(f.Data) == 0 || len(f.Data) >= 2)
//@   ensures err == nil
//@   ensures len(f.Data) >= 2 ==> len(r) == old(u16(bytes(f.Data), 0))
//@   ensures len(f.Data) == 0 ==> len(r) == 0
//@   loop 1 invariant 0 <= i && i <= pathCount && len(paths) == i && pathCount == old(u16(bytes(f.Data), 0))
//@   loop 1 modifies nothing
//@   modifies nothing

// C05 / C07: the decoded path has exactly as many items as its count field says.
//@ func (fp *FilePath) Write(b []byte) (n int, err error)
//@   property C01 C05 C07
//@   ensures err == nil && len(b) >= 2 ==> len(fp.Items) == old(u16(bytes(b), 0))
//@   loop 1 invariant 0 <= i && i <= u16(bytes(fp.ItemCount)) && len(fp.Items) == i && bytes(fp.ItemCount) == old(bytes(b)[0:2])

// C10: folder-upload item names are used as sent: no text decoding on the way to the file system
// (the download side sends the names on disk unencoded, so decoding here would break the round trip).
//@ func (fu *folderUpload) FormattedPath() (r string)
//@   property C10
//@   before any call (*golang.org/x/text/encoding.Decoder).String assert false
//@   before any call (*golang.org/x/text/encoding.Decoder).Bytes assert false
//@   before any call (*golang.org/x/text/encoding.Encoder).String assert false
