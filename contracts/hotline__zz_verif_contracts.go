//go:build verif

// Contracts for package hotline (comment-only; see /verif/DESIGN.md).
package hotline

//@ define wire_Field(f) := cat(bytes(f.Type), be16(len(f.Data)), bytes(f.Data))
//@ define inv_Field(f) := len(f.Data) <= 65535 && u16(bytes(f.FieldSize)) == len(f.Data)

//@ func (f *Field) Read(p []byte) (n int, err error)
//@   requires f != nil && inv_Field(f) && f.readOffset >= 0
//@   let W := old(wire_Field(f))
//@   ensures old(f.readOffset) >= len(W) ==> n == 0 && is_eof(err)
//@   ensures old(f.readOffset) < len(W) ==> err == nil && n == min(len(p), len(W)-old(f.readOffset))
//@   ensures old(f.readOffset) < len(W) ==> f.readOffset == old(f.readOffset)+n
//@   ensures old(f.readOffset) >= len(W) ==> f.readOffset == old(f.readOffset)
//@   ensures forall(i, 0, n, p[i] == W[old(f.readOffset)+i])
//@   nopanic
