//go:build verif

// Contracts for package mobius (comment-only file, see /verif/DESIGN.md).  The transaction
// handlers are verified in mode A: Authorize(recv, i) is abstracted to priv(recv, i), effects
// are classified by callee, the obligations of the privilege table come from
// /verif/spec/privileges.spec; the contracts below add loop invariants and call-site assertions.
package mobius

// C06: an account created through the protocol holds no privilege its creator lacks.

//@ func HandleNewUser(cc *hotline.ClientConn, t *hotline.Transaction) (res []hotline.Transaction)
//@   loop 1 invariant 0 <= i && i <= 64 && forall(j, 0, i, bit(bytes(newAccess), j) ==> priv(cc, j))
//@   loop 1 modifies nothing
//@   before call (hotline.AccountManager).Create assert forall(j, 0, 64, bit(bytes(arg1.Access), j) ==> priv(cc, j))

//@ func HandleUpdateUser(cc *hotline.ClientConn, t *hotline.Transaction) (res []hotline.Transaction)
//@   loop 4 invariant 0 <= i && i <= 64 && forall(j, 0, i, bit(bytes(newAccess), j) ==> priv(cc, j))
//@   loop 4 modifies nothing
//@   before call (hotline.AccountManager).Create assert forall(j, 0, 64, bit(bytes(arg1.Access), j) ==> priv(cc, j))

// C06: a user whose account is marked cannot-be-disconnected (bit 23) is neither banned nor disconnected.

//@ func HandleDisconnectUser(cc *hotline.ClientConn, t *hotline.Transaction) (res []hotline.Transaction)
//@   before call (hotline.BanMgr).Add assert !priv(clientConn, 23)
//@   before call mobius.HandleDisconnectUser$1 assert !priv(clientConn, 23)

// C13: the automatic reply follows the client's current preference: a SetClientUserInfo whose
// options field (113) is present with the automatic-response bit (bit 2) clear empties it.

//@ func HandleSetClientUserInfo(cc *hotline.ClientConn, t *hotline.Transaction) (res []hotline.Transaction)
//@   property C13
//@   let opt := reqdata(0, 113)
//@   before call (hotline.ClientManager).List assert !isnil(opt) && len(opt) >= 2 && old(bitof(u16(bytes(opt)), 2)) == 0 ==> len(cc.AutoReply) == 0
//@   before call (hotline.ClientManager).List assert !isnil(opt) && len(opt) >= 2 && old(bitof(u16(bytes(opt)), 2)) == 1 ==> same(cc.AutoReply, reqdata(0, 215))

// ---------------------------------------------------------------------------------
// C17: the ban list.  IsBanned answers from the map; Add records the entry, leaves every other
// address alone, writes the file and reports success only if the write succeeded.

//@ func (bf *BanFile) IsBanned(ip string) (banned bool, until *time.Time)
//@   requires bf != nil
//@   ensures banned == has(bf.banList, ip)
//@   ensures banned ==> until == get(bf.banList, ip)
//@   ensures !banned ==> until == nil
//@   guarded_by bf.Mutex: banList
//@   nopanic

//@ func (bf *BanFile) Add(ip string, until *time.Time) (err error)
//@   requires bf != nil && !isnil(bf.banList)
//@   ensures has(bf.banList, ip) && get(bf.banList, ip) == until
//@   ensures forall(k, -1000000000000, 1000000000000, k != ip ==> has(bf.banList, k) == has_old(bf.banList, k) && get(bf.banList, k) == get_old(bf.banList, k))
//@   ensures err == nil ==> callres("os.WriteFile") == nil && callres("os.Rename") == nil
//@   before call os.WriteFile assert same(arg1, callres("gopkg.in/yaml.v3.Marshal", 0))
//@   before call os.WriteFile assert locked(bf, "Mutex")
//@   before call os.Rename assert locked(bf, "Mutex")
//@   before call gopkg.in/yaml.v3.Marshal assert locked(bf, "Mutex")
//@   guarded_by bf.Mutex: banList

// C17: a disconnect with ban option 1 bans the target's address for 30 minutes, option 2 forever.

//@ func HandleDisconnectUser(cc *hotline.ClientConn, t *hotline.Transaction) (res []hotline.Transaction)
//@   before call (time.Time).Add assert arg1 == 1800000000000
//@   before call strings.Split assert arg0 == clientConn.RemoteAddr
//@   before call (hotline.BanMgr).Add assert (reqdata(0, 113)[1] == 1 ==> arg2 != nil) && (reqdata(0, 113)[1] == 2 ==> arg2 == nil) && (reqdata(0, 113)[1] == 1 || reqdata(0, 113)[1] == 2)

// ---------------------------------------------------------------------------------
// C15: the account table.  Every operation is specified over the WHOLE map (so an operation that
// leaves a stale key fails), and the file that is written is the marshalled form of exactly the
// account that the table then holds.

//@ define inv_AM(am) := am != nil && !isnil(am.accounts)

//@ func (am *YAMLAccountManager) Create(account hotline.Account) (err error)
//@   requires inv_AM(am)
//@   ensures err == nil ==> has(am.accounts, account.Login) && get(am.accounts, account.Login) == account
//@   ensures err != nil ==> forall(k, -1000000000000, 1000000000000, has(am.accounts, k) == has_old(am.accounts, k) && get(am.accounts, k) == get_old(am.accounts, k))
//@   ensures forall(k, -1000000000000, 1000000000000, k != account.Login ==> has(am.accounts, k) == has_old(am.accounts, k) && get(am.accounts, k) == get_old(am.accounts, k))
//@   ensures err == nil ==> callres("mobius.writeFileAtomic") == nil
//@   before call mobius.writeFileAtomic assert same(arg1, callres("gopkg.in/yaml.v3.Marshal", 0)) && locked(am, "mu")
//@   before call os.WriteFile assert false
//@   guarded_by am.mu: accounts

//@ func writeFileAtomic(path string, data []byte) (err error)
//@   modifies nothing

//@ func (am *YAMLAccountManager) Update(account hotline.Account, newLogin string) (err error)
//@   requires inv_AM(am)
//@   ensures err == nil ==> has(am.accounts, newLogin) && get(am.accounts, newLogin).Login == newLogin
//@   ensures err == nil ==> get(am.accounts, newLogin).Name == old(account.Name) && get(am.accounts, newLogin).Password == old(account.Password) && get(am.accounts, newLogin).Access == old(account.Access)
//@   ensures err == nil && old(account.Login) != newLogin ==> !has(am.accounts, old(account.Login))
//@   ensures forall(k, -1000000000000, 1000000000000, k != newLogin && k != old(account.Login) ==> has(am.accounts, k) == has_old(am.accounts, k) && get(am.accounts, k) == get_old(am.accounts, k))
//@   ensures err == nil ==> callres("mobius.writeFileAtomic") == nil
//@   before call gopkg.in/yaml.v3.Marshal assert account.Login == newLogin && locked(am, "mu")
//@   before call mobius.writeFileAtomic assert same(arg1, callres("gopkg.in/yaml.v3.Marshal", 0)) && locked(am, "mu")
//@   before call os.WriteFile assert false
//@   guarded_by am.mu: accounts

//@ func (am *YAMLAccountManager) Delete(login string) (err error)
//@   requires inv_AM(am)
//@   ensures err == nil ==> !has(am.accounts, login) && callres("os.Remove") == nil
//@   ensures forall(k, -1000000000000, 1000000000000, k != login ==> has(am.accounts, k) == has_old(am.accounts, k) && get(am.accounts, k) == get_old(am.accounts, k))
//@   guarded_by am.mu: accounts

//@ func (am *YAMLAccountManager) Get(login string) (r *hotline.Account)
//@   requires inv_AM(am)
//@   ensures has(am.accounts, login) ==> r != nil && *r == get(am.accounts, login) && fresh(r)
//@   ensures !has(am.accounts, login) ==> r == nil
//@   guarded_by am.mu: accounts

//@ func HandleDeleteUser(cc *hotline.ClientConn, t *hotline.Transaction) (res []hotline.Transaction)
//@   before call (hotline.AccountManager).Delete assert arg1 == callres("(*hotline.Field).DecodeObfuscatedString")

// The account an entry of a batched update refers to is named by that entry's own fields: the login
// field, or the data field (rename) of the same entry -- never by an earlier entry of the batch.
//@ func HandleUpdateUser(cc *hotline.ClientConn, t *hotline.Transaction) (res []hotline.Transaction)
//@   before call (hotline.AccountManager).Get assert arg1 == userLogin || callres("hotline.GetField#2") != nil

// ---------------------------------------------------------------------------------
// C07: every path a handler hands to the file store lies inside the requester's file root (ROOT =
// cc.FileRoot()); the file root registered with a transfer is the requester's.

//@ func HandleNewFolder(cc *hotline.ClientConn, t *hotline.Transaction) (res []hotline.Transaction)
//@   property C07
//@   loop 1 invariant subPath == "" || rooted(subPath)
//@   before call (hotline.FileStore).Stat assert inroot(arg1)
//@   before call (hotline.FileStore).Mkdir assert inroot(arg1)

//@ func HandleSetFileInfo(cc *hotline.ClientConn, t *hotline.Transaction) (res []hotline.Transaction)
//@   property C07
//@   before call (hotline.FileStore).Stat assert inroot(arg1)
//@   before call os.Rename assert inroot(arg0) && inroot(arg1)
//@   before call (*hotline.fileWrapper).Move assert fullFilePath != ROOT ==> seg(hlFile.Name) && inroot(arg1)

//@ func HandleDeleteFile(cc *hotline.ClientConn, t *hotline.Transaction) (res []hotline.Transaction)
//@   property C07
//@   before call hotline.NewFileWrapper assert inroot(arg1)

//@ func HandleMoveFile(cc *hotline.ClientConn, t *hotline.Transaction) (res []hotline.Transaction)
//@   property C07
//@   before call hotline.NewFileWrapper assert inroot(arg1)

//@ func HandleMakeAlias(cc *hotline.ClientConn, t *hotline.Transaction) (res []hotline.Transaction)
//@   property C07
//@   before call (hotline.FileStore).Symlink assert inroot(arg1) && inroot(arg2)

//@ func HandleGetFileInfo(cc *hotline.ClientConn, t *hotline.Transaction) (res []hotline.Transaction)
//@   property C07
//@   before call hotline.NewFileWrapper assert inroot(arg1)

//@ func HandleGetFileNameList(cc *hotline.ClientConn, t *hotline.Transaction) (res []hotline.Transaction)
//@   property C07
//@   before call hotline.GetFileNameList assert inroot(arg0)

//@ func HandleDownloadFile(cc *hotline.ClientConn, t *hotline.Transaction) (res []hotline.Transaction)
//@   property C07
//@   before call hotline.NewFileWrapper assert inroot(arg1)
//@   before call (*hotline.ClientConn).NewFileTransfer assert arg2 == ROOT

//@ func HandleUploadFile(cc *hotline.ClientConn, t *hotline.Transaction) (res []hotline.Transaction)
//@   property C07
//@   before call (hotline.FileStore).Stat assert inroot(arg1)
//@   before call (*hotline.ClientConn).NewFileTransfer assert arg2 == ROOT

//@ func HandleDownloadFolder(cc *hotline.ClientConn, t *hotline.Transaction) (res []hotline.Transaction)
//@   property C07
//@   before call hotline.CalcTotalSize assert inroot(arg0)
//@   before call hotline.CalcItemCount assert inroot(arg0)
//@   before call (*hotline.ClientConn).NewFileTransfer assert arg2 == ROOT

//@ func HandleUploadFolder(cc *hotline.ClientConn, t *hotline.Transaction) (res []hotline.Transaction)
//@   property C07
//@   before call (*hotline.ClientConn).NewFileTransfer assert arg2 == ROOT

// C07: account files are written, renamed and removed inside the accounts directory only.

//@ func (am *YAMLAccountManager) Create(account hotline.Account) (err error)
//@   property C07
//@   requires am.accountDir == ROOT
//@   before call os.Stat assert inroot(arg0)
//@   before call mobius.writeFileAtomic assert inroot(arg0)
//@   before any call os.OpenFile assert inroot(arg0)
//@ func (am *YAMLAccountManager) Update(account hotline.Account, newLogin string) (err error)
//@   property C07
//@   requires am.accountDir == ROOT
//@   before call os.Rename assert inroot(arg0) && inroot(arg1)
//@   before call mobius.writeFileAtomic assert inroot(arg0)
//@   before any call os.WriteFile assert inroot(arg0)
//@ func (am *YAMLAccountManager) Delete(login string) (err error)
//@   property C07
//@   requires am.accountDir == ROOT
//@   before call os.Remove assert inroot(arg0)

// ---------------------------------------------------------------------------------
// C19: the message board.  Write prepends the post, persists the new board and only then reports
// len(p); all of it under the store's mutex, so concurrent posts are serialised and none is lost.
// Read serves the board through a cursor; the cursor and the data are touched under the mutex only.

//@ define wire_FlatNews(f) := bytes(f.data)

//@ func (f *FlatNews) Write(p []byte) (n int, err error)
//@   requires f != nil
//@   ensures bytes(f.data) == cat(old(bytes(p)), old(bytes(f.data)))
//@   ensures err == nil ==> n == len(p) && callres("os.Rename") == nil
//@   before call os.WriteFile assert locked(f, "mu") && bytes(arg1) == cat(old(bytes(p)), old(bytes(f.data)))
//@   before call os.Rename assert locked(f, "mu") && callres("os.WriteFile") == nil
//@   guarded_by f.mu: data, readOffset

//@ func (f *FlatNews) Read(p []byte) (n int, err error)
//@   cursor wire_FlatNews readOffset
//@   guarded_by f.mu: data, readOffset

//@ func (f *FlatNews) Seek(offset int64, whence int) (n int64, err error)
//@   requires f != nil
//@   ensures f.readOffset == offset && err == nil
//@   guarded_by f.mu: data, readOffset

//@ func (a *Agreement) Read(p []byte) (n int, err error)
//@   cursor wire_Agreement readOffset
//@   guarded_by a.mu: data, readOffset
//@ define wire_Agreement(a) := bytes(a.data)

//@ func (a *Agreement) Seek(offset int64, whence int) (n int64, err error)
//@   requires a != nil
//@   ensures a.readOffset == offset && err == nil
//@   guarded_by a.mu: data, readOffset

// The post is acknowledged and announced only after the board accepted it; the reply to
// get-messages carries everything ReadAll returned from the board itself.

//@ func HandleTranOldPostNews(cc *hotline.ClientConn, t *hotline.Transaction) (res []hotline.Transaction)
//@   property C19
//@   before call (*hotline.ClientConn).NewReply assert callres("(io.ReadWriteSeeker).Write", 1) == nil
//@   before call (*hotline.ClientConn).SendAll assert callres("(io.ReadWriteSeeker).Write", 1) == nil
// the post format has classic line breaks only: what goes to the board (and is announced) is the
// whole assembled post -- header with name and date included -- with every LF turned into CR
//@   before call strings.ReplaceAll assert arg0 == callres("fmt.Sprintf") && arg1 == "\n" && arg2 == "\r"
//@   before call (io.ReadWriteSeeker).Write assert bytes(arg1) == bytes(callres("strings.ReplaceAll"))
//@   before call hotline.NewField assert bytes(arg1) == bytes(callres("strings.ReplaceAll"))

//@ func HandleGetMsgs(cc *hotline.ClientConn, t *hotline.Transaction) (res []hotline.Transaction)
//@   property C19
//@   before call io.ReadAll assert arg0 == cc.Server.MessageBoard
//@   before call hotline.NewField assert same(arg1, callres("io.ReadAll", 0))
//@   before call io.ReadAll assert ghost(heldlocks) > 0

// ---------------------------------------------------------------------------------
// C18: threaded news.  PostArticle: the new ID is larger than every ID collected from the category,
// the article is stored under it with the requested parent and linked after the previously newest
// one; nothing else in the category map changes; the tree is written before success is reported.

//@ func (n *ThreadedNewsYAML) PostArticle(newsPath []string, parentArticleID uint32, article hotline.NewsArtData) (err error)
//@   property C18
//@   requires n != nil
//@   before call (encoding/binary.bigEndian).PutUint32#2 assert forall(j, 0, len(keys), 0 <= keys[j] && keys[j] < 4294967295) ==> forall(j, 0, len(keys), keys[j] <= arg2)
//@   ensures len(newsPath) > 0 ==> has(cat.Articles, nextID)
//@   ensures len(newsPath) > 0 ==> u32(bytes(get(cat.Articles, nextID).ParentArt)) == parentArticleID
//@   before call (encoding/binary.bigEndian).PutUint32#3 assert callarg("(encoding/binary.bigEndian).PutUint32#2", 2) < 4294967295 ==> arg2 == callarg("(encoding/binary.bigEndian).PutUint32#2", 2) + 1
//@   ensures len(newsPath) > 0 ==> forall(k, 0, 4294967296, k != nextID ==> has(cat.Articles, k) == has_old(cat.Articles, k) && get(cat.Articles, k) == get_old(cat.Articles, k))
//@   ensures len(newsPath) > 0 ==> err == callres("(*mobius.ThreadedNewsYAML).writeFile")
//@   loop 1 modifies nothing
//@   before call (*mobius.ThreadedNewsYAML).writeFile assert locked(n, "mu")
//@   guarded_by n.mu: ThreadedNews

//@ func (n *ThreadedNewsYAML) DeleteArticle(newsPath []string, articleID uint32, recursive bool) (err error)
//@   property C18
//@   requires n != nil
//@   ensures len(newsPath) > 0 ==> !has(cat.Articles, articleID) && err == callres("(*mobius.ThreadedNewsYAML).writeFile")
//@   ensures len(newsPath) > 0 ==> forall(k, 0, 4294967296, k != articleID ==> has(cat.Articles, k) == has_old(cat.Articles, k) && get(cat.Articles, k) == get_old(cat.Articles, k))
//@   before call (*mobius.ThreadedNewsYAML).writeFile assert locked(n, "mu")

//@ func (n *ThreadedNewsYAML) writeFile() (err error)
//@   modifies nothing

// ---------------------------------------------------------------------------------
// C12: a chat line is cut to 8192 bytes whatever its form; a public line goes only to clients whose
// account may read chat.

//@ func HandleChatSend(cc *hotline.ClientConn, t *hotline.Transaction) (res []hotline.Transaction)
//@   property C12
//@   before call hotline.NewField assert arg0[0] == 0 && arg0[1] == 101 ==> len(arg1) <= 8192
//@   before call hotline.NewTransaction#2 assert priv(c, 9)
//@   before call hotline.NewTransaction assert arg0[0] == 0 && arg0[1] == 106
//@   before call hotline.NewTransaction#1 assert arg1 == c.ID
//@   before call hotline.NewTransaction#2 assert arg1 == c.ID
//@   before call (hotline.ChatManager).Members assert bytes(arg1) == bytes(reqdata(0, 114))[0:4]
//@   before call hotline.NewField#1 assert arg0[0] == 0 && arg0[1] == 114 && same(arg1, reqdata(0, 114))

// Private-chat notices go to the members of the chat the request names -- one transaction per
// member, addressed to that member, carrying that chat's ID: a join notice to those who were
// members before the join (the joiner is added afterwards and gets the member list as a reply), a
// leave notice to those who remain after the leaver was removed, a subject change to all members.

//@ func HandleJoinChat(cc *hotline.ClientConn, t *hotline.Transaction) (res []hotline.Transaction)
//@   property C12
//@   before call (hotline.ChatManager).Members assert bytes(arg1) == bytes(reqdata(0, 114))[0:4]
//@   before call hotline.NewTransaction assert arg0[0] == 0 && arg0[1] == 117 && arg1 == c.ID
//@   before call hotline.NewField#1 assert arg0[0] == 0 && arg0[1] == 114 && same(arg1, reqdata(0, 114))
//@   before call (hotline.ChatManager).Join assert bytes(arg1) == bytes(reqdata(0, 114))[0:4] && arg2 == cc && len(callres("(hotline.ChatManager).Members#1")) >= 0
//@   before call (hotline.ChatManager).Members#2 assert same(callarg("(hotline.ChatManager).Join", 2), cc)

//@ func HandleLeaveChat(cc *hotline.ClientConn, t *hotline.Transaction) (res []hotline.Transaction)
//@   property C12
//@   before call (hotline.ChatManager).Leave assert bytes(arg1) == bytes(reqdata(0, 114))[0:4] && arg2 == cc.ID
//@   before call (hotline.ChatManager).Members assert bytes(arg1) == bytes(reqdata(0, 114))[0:4] && callarg("(hotline.ChatManager).Leave", 2) == cc.ID
//@   before call hotline.NewTransaction assert arg0[0] == 0 && arg0[1] == 118 && arg1 == c.ID
//@   before call hotline.NewField#1 assert arg0[0] == 0 && arg0[1] == 114 && same(arg1, reqdata(0, 114))

// every member of the chat is sent its copy: each completed iteration of the fan-out loop built a
// transaction for the member it visited (membership of a private chat is the only condition --
// the chat privileges govern public chat and chat creation)
//@ func HandleJoinChat(cc *hotline.ClientConn, t *hotline.Transaction) (res []hotline.Transaction)
//@   property C12
//@   loop 1 reaches hotline.NewTransaction
//@ func HandleLeaveChat(cc *hotline.ClientConn, t *hotline.Transaction) (res []hotline.Transaction)
//@   property C12
//@   loop 1 reaches hotline.NewTransaction
//@ func HandleSetChatSubject(cc *hotline.ClientConn, t *hotline.Transaction) (res []hotline.Transaction)
//@   property C12
//@   loop 1 reaches hotline.NewTransaction
//@ func HandleRejectChatInvite(cc *hotline.ClientConn, t *hotline.Transaction) (res []hotline.Transaction)
//@   property C12
//@   before call (hotline.ChatManager).Members assert bytes(arg1) == bytes(reqdata(0, 114))[0:4]
//@   before call hotline.NewTransaction assert arg0[0] == 0 && arg0[1] == 106 && arg1 == c.ID
//@   before call hotline.NewField#1 assert arg0[0] == 0 && arg0[1] == 114
//@   loop 1 reaches hotline.NewTransaction

//@ func HandleSetChatSubject(cc *hotline.ClientConn, t *hotline.Transaction) (res []hotline.Transaction)
//@   property C12
//@   before call (hotline.ChatManager).Members assert bytes(arg1) == bytes(reqdata(0, 114))[0:4]
//@   before call hotline.NewTransaction assert arg0[0] == 0 && arg0[1] == 119 && arg1 == c.ID
//@   before call hotline.NewField#1 assert arg0[0] == 0 && arg0[1] == 114 && same(arg1, reqdata(0, 114))
//@   before call hotline.NewField#2 assert arg0[0] == 0 && arg0[1] == 115 && same(arg1, reqdata(0, 115))

// ---------------------------------------------------------------------------------
// C08: the download reply.  The only refusal is the privilege denial; the transfer size field is
// TransferSize(0) of the wrapper built at the resume offset (or the bare data size for a preview),
// the file size field is the remaining data length.

//@ func HandleDownloadFile(cc *hotline.ClientConn, t *hotline.Transaction) (res []hotline.Transaction)
//@   property C08
//@   before call (*hotline.ClientConn).NewErrReply assert !priv(cc, 2)
//@   before call (*hotline.flattenedFileObject).TransferSize assert arg1 == 0 && arg0 == callres("hotline.NewFileWrapper", 0).Ffo
//@   before call hotline.NewFileWrapper assert isnil(reqdata(0, 203)) ==> arg2 == 0
//@   before call hotline.NewFileWrapper assert !isnil(reqdata(0, 203)) && old(reqdata(0, 203)[41]) >= 1 ==> arg2 == old(u32(bytes(reqdata(0, 203)), 46))
//@   before call (*hotline.FileResumeData).UnmarshalBinary assert same(arg1, reqdata(0, 203))
//@   before call hotline.NewField#3 assert arg0[0] == 0 && arg0[1] == 108
//@   before call hotline.NewField#3 assert isnil(reqdata(0, 204)) ==> same(arg1, callres("(*hotline.flattenedFileObject).TransferSize"))
//@   before call hotline.NewField#3 assert !isnil(reqdata(0, 204)) ==> len(arg1) == 4 && ptsto(arg1, hlFile.Ffo.FlatFileDataForkHeader.DataSize)
//@   before call hotline.NewField#4 assert arg0[0] == 0 && arg0[1] == 207 && len(arg1) == 4 && ptsto(arg1, hlFile.Ffo.FlatFileDataForkHeader.DataSize)
// a request that carries resume data is served as a resumed transfer whatever the offset (offset 0
// included): the transfer remembers the resume data, so the handler on the transfer port sends no
// resource fork header after the data fork -- in step with the announced size
//@   before call (*hotline.ClientConn).NewReply assert !isnil(reqdata(0, 203)) ==> callres("(*hotline.ClientConn).NewFileTransfer").FileResumeData != nil

// ---------------------------------------------------------------------------------
// C10: the folder download reply announces the item count and total size computed for the very
// folder the request addresses; refusal only on the privilege.

//@ func HandleDownloadFolder(cc *hotline.ClientConn, t *hotline.Transaction) (res []hotline.Transaction)
//@   property C10
//@   before call (*hotline.ClientConn).NewErrReply assert !priv(cc, 39)
//@   before call hotline.CalcItemCount assert arg0 == callres("hotline.ReadPath", 0)
//@   before call hotline.CalcTotalSize assert arg0 == callres("hotline.ReadPath", 0)
//@   before call hotline.NewField#3 assert arg0[0] == 0 && arg0[1] == 220 && same(arg1, callres("hotline.CalcItemCount", 0))
//@   before call hotline.NewField#2 assert arg0[0] == 0 && arg0[1] == 108 && same(arg1, callres("hotline.CalcTotalSize", 0))

//@ func HandleUploadFolder(cc *hotline.ClientConn, t *hotline.Transaction) (res []hotline.Transaction)
//@   property C10
//@   before call (*hotline.ClientConn).NewErrReply#1 assert !priv(cc, 38)
//@   before call (*hotline.ClientConn).NewErrReply#2 assert !priv(cc, 25)

// ---------------------------------------------------------------------------------
// C11: a folder is created only where nothing exists (the existence test and the creation concern
// the same path); a file rename moves the wrapper, carrying the new name, within its own folder.

//@ func HandleNewFolder(cc *hotline.ClientConn, t *hotline.Transaction) (res []hotline.Transaction)
//@   property C11
//@   before call (hotline.FileStore).Mkdir assert callres("os.IsNotExist") && arg1 == callarg("(hotline.FileStore).Stat", 1)
// the folder is created where every other file request resolves the same path bytes: ReadPath
// decodes the whole joined path (root, path items, name) from Mac Roman, and so does this handler
//@   before call (*golang.org/x/text/encoding.Decoder).String assert arg1 == callres("path.Join")
//@   before call (hotline.FileStore).Stat assert arg1 == callres("(*golang.org/x/text/encoding.Decoder).String", 0)

//@ func HandleSetFileInfo(cc *hotline.ClientConn, t *hotline.Transaction) (res []hotline.Transaction)
//@   property C11
//@   before call (*hotline.fileWrapper).Move assert hlFile.Name == pbase(callres("hotline.ReadPath#2", 0)) && arg1 == callres("hotline.ReadPath#3", 0)
//@   before call (*hotline.FlatFileInformationFork).SetComment assert !isnil(reqdata(0, 210)) && same(arg1, reqdata(0, 210))
//@   ensures !isnil(reqdata(0, 210)) && called("(*hotline.ClientConn).NewReply") ==> called("(*hotline.FlatFileInformationFork).SetComment") && called("(*hotline.fileWrapper).InfoForkWriter") && called("io.Copy")

// ---------------------------------------------------------------------------------
// C09: the upload reply.  An upload is refused when the final name exists; for a resume request
// the offset reported to the client (and recorded as the transfer size) is the size of the partial
// file <name>.incomplete next to the final name.

//@ func HandleUploadFile(cc *hotline.ClientConn, t *hotline.Transaction) (res []hotline.Transaction)
//@   property C09
//@   before call (hotline.FileStore).Stat#1 assert arg1 == callres("hotline.ReadPath", 0)
//@   before call (hotline.FileStore).Stat#2 assert arg1 == strcat(callres("hotline.ReadPath", 0), ".incomplete")
//@   before call (*hotline.ClientConn).NewFileTransfer assert callres("(hotline.FileStore).Stat#1", 1) != nil
//@   before call hotline.NewForkInfoList assert u32(bytes(arg0)) == callres("Size") % 4294967296 && callres("(hotline.FileStore).Stat#2", 1) == nil
//@   before call hotline.NewField#2 assert arg0[0] == 0 && arg0[1] == 203 && same(arg1, callres("BinaryMarshal", 0))
//@   before call hotline.NewFileResumeData assert len(arg0) == 1
// the request only announces the upload: the partial file whose size was just reported (and every
// other file) is left as it is -- nothing is removed, renamed, truncated or created here
//@   before any call (hotline.FileStore).Remove assert false
//@   before any call (hotline.FileStore).RemoveAll assert false
//@   before any call (hotline.FileStore).Rename assert false
//@   before any call (hotline.FileStore).OpenFile assert false
//@   before any call (hotline.FileStore).Create assert false
//@   before any call (hotline.FileStore).WriteFile assert false
//@   before any call os.Remove assert false
//@   before any call os.RemoveAll assert false
//@   before any call os.Rename assert false
//@   before any call os.Truncate assert false
//@   before any call os.OpenFile assert false
//@   before any call os.Create assert false
//@   before any call os.WriteFile assert false

// ---------------------------------------------------------------------------------
// C15: the three password cases of a single-account edit.  The field absent clears the password
// (hash of the empty string); the one-byte marker {0} leaves it alone (no hash is computed, so no
// store to the Password field can happen: every such store is a HashAndSalt result, see the
// password obligations); anything else is hashed as given.

//@ func HandleSetUser(cc *hotline.ClientConn, t *hotline.Transaction) (res []hotline.Transaction)
//@   property C15
//@   let pw := reqdata(0, 106)
//@   before call hotline.HashAndSalt#1 assert isnil(pw) && len(arg0) == 0
//@   before call hotline.HashAndSalt#2 assert !(len(pw) == 1 && pw[0] == 0) && same(arg0, pw)
//@   before call (hotline.AccountManager).Update assert isnil(pw) ==> arg1.Password == callres("hotline.HashAndSalt#2")
//@   before call (hotline.AccountManager).Update assert !isnil(pw) && !(len(pw) == 1 && pw[0] == 0) ==> arg1.Password == callres("hotline.HashAndSalt#2")
//@   before call (hotline.AccountManager).Update assert arg2 == arg1.Login && arg1.Login == callres("(hotline.AccountManager).Get").Login

// C16: an edit reaches the connections logged in under the account: by the time the change is
// announced, the bitmap that connection's authorisation decisions use is the edited account's --
// the same bits that were just sent to it (field 110 carries the request's bitmap) and written to
// the file.
//@ func HandleSetUser(cc *hotline.ClientConn, t *hotline.Transaction) (res []hotline.Transaction)
//@   property C16
//@   before store Account.Access assert target == c.Account && val == account.Access
//@   before call hotline.NewField#1 assert arg0[0] == 0 && arg0[1] == 110 && same(arg1, reqdata(0, 110))

// C15: the account list shown to an administrator has one entry per account the manager lists:
// every account whose record could be serialised contributes exactly the bytes of its own record,
// and the reply carries those entries.
//@ func HandleListUsers(cc *hotline.ClientConn, t *hotline.Transaction) (res []hotline.Transaction)
//@   property C15
//@   before call hotline.NewField assert arg0[0] == 0 && arg0[1] == 101 && same(arg1, callres("io.ReadAll", 0)) && callres("io.ReadAll", 1) == nil
//@   loop 1 reaches hotline.NewField when callres("io.ReadAll", 1) == nil
//@   before call (*hotline.ClientConn).NewReply assert same(arg2, userFields)
//@   before any call (*hotline.ClientConn).NewErrReply assert !priv(cc, 16)

// C18, at the protocol level: a post / delete / read request acts on the path and article ID the
// client sent (fields 325 and 326), a post records the requester's name and the submitted title
// and body, and a read reply carries the stored article member by member.
//@ func HandlePostNewsArt(cc *hotline.ClientConn, t *hotline.Transaction) (res []hotline.Transaction)
//@   property C18
//@   before call (*hotline.Field).DecodeNewsPath assert same(arg0.Data, reqdata(1, 69))
//@   before call (*hotline.Field).DecodeInt assert same(arg0.Data, reqdata(1, 70))
//@   before call (hotline.ThreadedNewsMgr).PostArticle assert same(arg1, callres("(*hotline.Field).DecodeNewsPath", 0)) && arg2 == callres("(*hotline.Field).DecodeInt", 0) % 4294967296
//@   before call (hotline.ThreadedNewsMgr).PostArticle assert bytes(arg3.Title) == bytes(reqdata(1, 72)) && bytes(arg3.Data) == bytes(reqdata(1, 77)) && bytes(arg3.Poster) == bytes(cc.UserName)
//@   before call (hotline.ThreadedNewsMgr).PostArticle assert callres("(*hotline.Field).DecodeNewsPath", 1) == nil && callres("(*hotline.Field).DecodeInt", 1) == nil

//@ func HandleDelNewsArt(cc *hotline.ClientConn, t *hotline.Transaction) (res []hotline.Transaction)
//@   property C18
//@   before call (*hotline.Field).DecodeNewsPath assert same(arg0.Data, reqdata(1, 69))
//@   before call (*hotline.Field).DecodeInt assert same(arg0.Data, reqdata(1, 70))
//@   before call (hotline.ThreadedNewsMgr).DeleteArticle assert same(arg1, callres("(*hotline.Field).DecodeNewsPath", 0)) && arg2 == callres("(*hotline.Field).DecodeInt", 0) % 4294967296
//@   before call (hotline.ThreadedNewsMgr).DeleteArticle assert callres("(*hotline.Field).DecodeNewsPath", 1) == nil && callres("(*hotline.Field).DecodeInt", 1) == nil

//@ func HandleGetNewsArtData(cc *hotline.ClientConn, t *hotline.Transaction) (res []hotline.Transaction)
//@   property C18
//@   let art := callres("(hotline.ThreadedNewsMgr).GetArticle")
//@   before call (hotline.ThreadedNewsMgr).GetArticle assert same(arg1, callres("(*hotline.Field).DecodeNewsPath", 0)) && arg2 == callres("(*hotline.Field).DecodeInt", 0) % 4294967296
//@   before call hotline.NewField#1 assert arg0[0] == 1 && arg0[1] == 72 && bytes(arg1) == bytes(art.Title)
//@   before call hotline.NewField#2 assert arg0[0] == 1 && arg0[1] == 73 && bytes(arg1) == bytes(art.Poster)
//@   before call hotline.NewField#3 assert arg0[0] == 1 && arg0[1] == 74 && ptsto(arg1, art.Date) && len(arg1) == 8
//@   before call hotline.NewField#4 assert arg0[0] == 1 && arg0[1] == 75 && ptsto(arg1, art.PrevArt) && len(arg1) == 4
//@   before call hotline.NewField#5 assert arg0[0] == 1 && arg0[1] == 76 && ptsto(arg1, art.NextArt) && len(arg1) == 4
//@   before call hotline.NewField#6 assert arg0[0] == 1 && arg0[1] == 79 && ptsto(arg1, art.ParentArt) && len(arg1) == 4
//@   before call hotline.NewField#7 assert arg0[0] == 1 && arg0[1] == 80 && ptsto(arg1, art.FirstChildArt) && len(arg1) == 4
//@   before call hotline.NewField#9 assert arg0[0] == 1 && arg0[1] == 77 && bytes(arg1) == bytes(art.Data)

// C13: when an account edit changes what the server stores for a logged-in user (the admin flag
// follows the new privileges), everybody is told: each visited connection of the edited account is
// announced, with its own ID, stored flags, name and icon.
//@ func HandleSetUser(cc *hotline.ClientConn, t *hotline.Transaction) (res []hotline.Transaction)
//@   property C13
//@   loop 1 reaches (*hotline.ClientConn).SendAll when c.Account.Login == login
//@   before call (*hotline.ClientConn).SendAll assert arg1[0] == 1 && arg1[1] == 45
//@   before call hotline.NewField assert arg0[0] == 0 && arg0[1] == 112 ==> ptsto(arg1, c.Flags) && len(arg1) == 2
//@   before call hotline.NewField assert arg0[0] == 0 && arg0[1] == 103 ==> ptsto(arg1, c.ID) && len(arg1) == 2
//@   before call hotline.NewField assert arg0[0] == 0 && arg0[1] == 102 ==> same(arg1, c.UserName)
//@   before call hotline.NewField assert arg0[0] == 0 && arg0[1] == 104 ==> same(arg1, c.Icon)

// C13: a private message is addressed to the user holding the requested ID, honours THAT user's
// refuse-private-messages flag (flag 2 of the recipient's flag word) -- the refusal notice goes back
// to the sender -- and the automatic reply comes from the recipient's stored text.
//@ func HandleSendInstantMsg(cc *hotline.ClientConn, t *hotline.Transaction) (res []hotline.Transaction)
//@   property C13
//@   let to := callres("(hotline.ClientManager).Get")
//@   before call (hotline.ClientManager).Get assert arg1[0] == reqdata(0, 103)[0] && arg1[1] == reqdata(0, 103)[1]
//@   before call (*hotline.UserFlags).IsSet assert arg1 == 2 && arg0 == addrof(to.Flags)
//@   before call hotline.NewTransaction#1 assert arg0[0] == 0 && arg0[1] == 104 && arg1[0] == reqdata(0, 103)[0] && arg1[1] == reqdata(0, 103)[1]
//@   before call hotline.NewTransaction#2 assert arg0[0] == 0 && arg0[1] == 104 && arg1 == cc.ID && callres("(*hotline.UserFlags).IsSet")
//@   before call hotline.NewTransaction#3 assert arg0[0] == 0 && arg0[1] == 104 && arg1 == cc.ID && len(to.AutoReply) > 0
//@   before call hotline.NewField#1 assert arg0[0] == 0 && arg0[1] == 101 && same(arg1, reqdata(0, 101))
//@   before call hotline.NewField#2 assert arg0[0] == 0 && arg0[1] == 102 && same(arg1, cc.UserName)
//@   before call hotline.NewField#3 assert arg0[0] == 0 && arg0[1] == 103 && ptsto(arg1, cc.ID) && len(arg1) == 2

// ---------------------------------------------------------------------------------
// C14: replies are never misdirected.  In every registered handler a reply (success or error) is
// built on the requester's own connection -- NewReply / NewErrReply copy the request's ID and the
// receiver's client ID, so a reply built on another connection would reach a client that never
// sent the request and leave the requester without an answer.
//@ func HandleChatSend(cc *hotline.ClientConn, t *hotline.Transaction) (res []hotline.Transaction)
//@   property C14
//@   before any call (*hotline.ClientConn).NewReply assert arg0 == cc && arg1 == t
//@   before any call (*hotline.ClientConn).NewErrReply assert arg0 == cc && arg1 == t
//@ func HandleDelNewsArt(cc *hotline.ClientConn, t *hotline.Transaction) (res []hotline.Transaction)
//@   property C14
//@   before any call (*hotline.ClientConn).NewReply assert arg0 == cc && arg1 == t
//@   before any call (*hotline.ClientConn).NewErrReply assert arg0 == cc && arg1 == t
//@ func HandleDelNewsItem(cc *hotline.ClientConn, t *hotline.Transaction) (res []hotline.Transaction)
//@   property C14
//@   before any call (*hotline.ClientConn).NewReply assert arg0 == cc && arg1 == t
//@   before any call (*hotline.ClientConn).NewErrReply assert arg0 == cc && arg1 == t
//@ func HandleDeleteFile(cc *hotline.ClientConn, t *hotline.Transaction) (res []hotline.Transaction)
//@   property C14
//@   before any call (*hotline.ClientConn).NewReply assert arg0 == cc && arg1 == t
//@   before any call (*hotline.ClientConn).NewErrReply assert arg0 == cc && arg1 == t
//@ func HandleDeleteUser(cc *hotline.ClientConn, t *hotline.Transaction) (res []hotline.Transaction)
//@   property C14
//@   before any call (*hotline.ClientConn).NewReply assert arg0 == cc && arg1 == t
//@   before any call (*hotline.ClientConn).NewErrReply assert arg0 == cc && arg1 == t
//@ func HandleDisconnectUser(cc *hotline.ClientConn, t *hotline.Transaction) (res []hotline.Transaction)
//@   property C14
//@   before any call (*hotline.ClientConn).NewReply assert arg0 == cc && arg1 == t
//@   before any call (*hotline.ClientConn).NewErrReply assert arg0 == cc && arg1 == t
//@ func HandleDownloadBanner(cc *hotline.ClientConn, t *hotline.Transaction) (res []hotline.Transaction)
//@   property C14
//@   before any call (*hotline.ClientConn).NewReply assert arg0 == cc && arg1 == t
//@   before any call (*hotline.ClientConn).NewErrReply assert arg0 == cc && arg1 == t
//@ func HandleDownloadFile(cc *hotline.ClientConn, t *hotline.Transaction) (res []hotline.Transaction)
//@   property C14
//@   before any call (*hotline.ClientConn).NewReply assert arg0 == cc && arg1 == t
//@   before any call (*hotline.ClientConn).NewErrReply assert arg0 == cc && arg1 == t
//@ func HandleDownloadFolder(cc *hotline.ClientConn, t *hotline.Transaction) (res []hotline.Transaction)
//@   property C14
//@   before any call (*hotline.ClientConn).NewReply assert arg0 == cc && arg1 == t
//@   before any call (*hotline.ClientConn).NewErrReply assert arg0 == cc && arg1 == t
//@ func HandleGetClientInfoText(cc *hotline.ClientConn, t *hotline.Transaction) (res []hotline.Transaction)
//@   property C14
//@   before any call (*hotline.ClientConn).NewReply assert arg0 == cc && arg1 == t
//@   before any call (*hotline.ClientConn).NewErrReply assert arg0 == cc && arg1 == t
//@ func HandleGetFileInfo(cc *hotline.ClientConn, t *hotline.Transaction) (res []hotline.Transaction)
//@   property C14
//@   before any call (*hotline.ClientConn).NewReply assert arg0 == cc && arg1 == t
//@   before any call (*hotline.ClientConn).NewErrReply assert arg0 == cc && arg1 == t
//@ func HandleGetFileNameList(cc *hotline.ClientConn, t *hotline.Transaction) (res []hotline.Transaction)
//@   property C14
//@   before any call (*hotline.ClientConn).NewReply assert arg0 == cc && arg1 == t
//@   before any call (*hotline.ClientConn).NewErrReply assert arg0 == cc && arg1 == t
//@ func HandleGetMsgs(cc *hotline.ClientConn, t *hotline.Transaction) (res []hotline.Transaction)
//@   property C14
//@   before any call (*hotline.ClientConn).NewReply assert arg0 == cc && arg1 == t
//@   before any call (*hotline.ClientConn).NewErrReply assert arg0 == cc && arg1 == t
//@ func HandleGetNewsArtData(cc *hotline.ClientConn, t *hotline.Transaction) (res []hotline.Transaction)
//@   property C14
//@   before any call (*hotline.ClientConn).NewReply assert arg0 == cc && arg1 == t
//@   before any call (*hotline.ClientConn).NewErrReply assert arg0 == cc && arg1 == t
//@ func HandleGetNewsArtNameList(cc *hotline.ClientConn, t *hotline.Transaction) (res []hotline.Transaction)
//@   property C14
//@   before any call (*hotline.ClientConn).NewReply assert arg0 == cc && arg1 == t
//@   before any call (*hotline.ClientConn).NewErrReply assert arg0 == cc && arg1 == t
//@ func HandleGetNewsCatNameList(cc *hotline.ClientConn, t *hotline.Transaction) (res []hotline.Transaction)
//@   property C14
//@   before any call (*hotline.ClientConn).NewReply assert arg0 == cc && arg1 == t
//@   before any call (*hotline.ClientConn).NewErrReply assert arg0 == cc && arg1 == t
//@ func HandleGetUser(cc *hotline.ClientConn, t *hotline.Transaction) (res []hotline.Transaction)
//@   property C14
//@   before any call (*hotline.ClientConn).NewReply assert arg0 == cc && arg1 == t
//@   before any call (*hotline.ClientConn).NewErrReply assert arg0 == cc && arg1 == t
//@ func HandleGetUserNameList(cc *hotline.ClientConn, t *hotline.Transaction) (res []hotline.Transaction)
//@   property C14
//@   before any call (*hotline.ClientConn).NewReply assert arg0 == cc && arg1 == t
//@   before any call (*hotline.ClientConn).NewErrReply assert arg0 == cc && arg1 == t
//@ func HandleInviteNewChat(cc *hotline.ClientConn, t *hotline.Transaction) (res []hotline.Transaction)
//@   property C14
//@   before any call (*hotline.ClientConn).NewReply assert arg0 == cc && arg1 == t
//@   before any call (*hotline.ClientConn).NewErrReply assert arg0 == cc && arg1 == t
//@ func HandleInviteToChat(cc *hotline.ClientConn, t *hotline.Transaction) (res []hotline.Transaction)
//@   property C14
//@   before any call (*hotline.ClientConn).NewReply assert arg0 == cc && arg1 == t
//@   before any call (*hotline.ClientConn).NewErrReply assert arg0 == cc && arg1 == t
//@ func HandleJoinChat(cc *hotline.ClientConn, t *hotline.Transaction) (res []hotline.Transaction)
//@   property C14
//@   before any call (*hotline.ClientConn).NewReply assert arg0 == cc && arg1 == t
//@   before any call (*hotline.ClientConn).NewErrReply assert arg0 == cc && arg1 == t
//@ func HandleKeepAlive(cc *hotline.ClientConn, t *hotline.Transaction) (res []hotline.Transaction)
//@   property C14
//@   before any call (*hotline.ClientConn).NewReply assert arg0 == cc && arg1 == t
//@   before any call (*hotline.ClientConn).NewErrReply assert arg0 == cc && arg1 == t
//@ func HandleListUsers(cc *hotline.ClientConn, t *hotline.Transaction) (res []hotline.Transaction)
//@   property C14
//@   before any call (*hotline.ClientConn).NewReply assert arg0 == cc && arg1 == t
//@   before any call (*hotline.ClientConn).NewErrReply assert arg0 == cc && arg1 == t
//@ func HandleMakeAlias(cc *hotline.ClientConn, t *hotline.Transaction) (res []hotline.Transaction)
//@   property C14
//@   before any call (*hotline.ClientConn).NewReply assert arg0 == cc && arg1 == t
//@   before any call (*hotline.ClientConn).NewErrReply assert arg0 == cc && arg1 == t
//@ func HandleMoveFile(cc *hotline.ClientConn, t *hotline.Transaction) (res []hotline.Transaction)
//@   property C14
//@   before any call (*hotline.ClientConn).NewReply assert arg0 == cc && arg1 == t
//@   before any call (*hotline.ClientConn).NewErrReply assert arg0 == cc && arg1 == t
//@ func HandleNewFolder(cc *hotline.ClientConn, t *hotline.Transaction) (res []hotline.Transaction)
//@   property C14
//@   before any call (*hotline.ClientConn).NewReply assert arg0 == cc && arg1 == t
//@   before any call (*hotline.ClientConn).NewErrReply assert arg0 == cc && arg1 == t
//@ func HandleNewNewsCat(cc *hotline.ClientConn, t *hotline.Transaction) (res []hotline.Transaction)
//@   property C14
//@   before any call (*hotline.ClientConn).NewReply assert arg0 == cc && arg1 == t
//@   before any call (*hotline.ClientConn).NewErrReply assert arg0 == cc && arg1 == t
//@ func HandleNewNewsFldr(cc *hotline.ClientConn, t *hotline.Transaction) (res []hotline.Transaction)
//@   property C14
//@   before any call (*hotline.ClientConn).NewReply assert arg0 == cc && arg1 == t
//@   before any call (*hotline.ClientConn).NewErrReply assert arg0 == cc && arg1 == t
//@ func HandleNewUser(cc *hotline.ClientConn, t *hotline.Transaction) (res []hotline.Transaction)
//@   property C14
//@   before any call (*hotline.ClientConn).NewReply assert arg0 == cc && arg1 == t
//@   before any call (*hotline.ClientConn).NewErrReply assert arg0 == cc && arg1 == t
//@ func HandlePostNewsArt(cc *hotline.ClientConn, t *hotline.Transaction) (res []hotline.Transaction)
//@   property C14
//@   before any call (*hotline.ClientConn).NewReply assert arg0 == cc && arg1 == t
//@   before any call (*hotline.ClientConn).NewErrReply assert arg0 == cc && arg1 == t
//@ func HandleSendInstantMsg(cc *hotline.ClientConn, t *hotline.Transaction) (res []hotline.Transaction)
//@   property C14
//@   before any call (*hotline.ClientConn).NewReply assert arg0 == cc && arg1 == t
//@   before any call (*hotline.ClientConn).NewErrReply assert arg0 == cc && arg1 == t
//@ func HandleSetUser(cc *hotline.ClientConn, t *hotline.Transaction) (res []hotline.Transaction)
//@   property C14
//@   before any call (*hotline.ClientConn).NewReply assert arg0 == cc && arg1 == t
//@   before any call (*hotline.ClientConn).NewErrReply assert arg0 == cc && arg1 == t
//@ func HandleTranAgreed(cc *hotline.ClientConn, t *hotline.Transaction) (res []hotline.Transaction)
//@   property C14
//@   before any call (*hotline.ClientConn).NewReply assert arg0 == cc && arg1 == t
//@   before any call (*hotline.ClientConn).NewErrReply assert arg0 == cc && arg1 == t
//@ func HandleTranOldPostNews(cc *hotline.ClientConn, t *hotline.Transaction) (res []hotline.Transaction)
//@   property C14
//@   before any call (*hotline.ClientConn).NewReply assert arg0 == cc && arg1 == t
//@   before any call (*hotline.ClientConn).NewErrReply assert arg0 == cc && arg1 == t
//@ func HandleUpdateUser(cc *hotline.ClientConn, t *hotline.Transaction) (res []hotline.Transaction)
//@   property C14
//@   before any call (*hotline.ClientConn).NewReply assert arg0 == cc && arg1 == t
//@   before any call (*hotline.ClientConn).NewErrReply assert arg0 == cc && arg1 == t
//@ func HandleUploadFile(cc *hotline.ClientConn, t *hotline.Transaction) (res []hotline.Transaction)
//@   property C14
//@   before any call (*hotline.ClientConn).NewReply assert arg0 == cc && arg1 == t
//@   before any call (*hotline.ClientConn).NewErrReply assert arg0 == cc && arg1 == t
//@ func HandleUploadFolder(cc *hotline.ClientConn, t *hotline.Transaction) (res []hotline.Transaction)
//@   property C14
//@   before any call (*hotline.ClientConn).NewReply assert arg0 == cc && arg1 == t
//@   before any call (*hotline.ClientConn).NewErrReply assert arg0 == cc && arg1 == t
//@ func HandleUserBroadcast(cc *hotline.ClientConn, t *hotline.Transaction) (res []hotline.Transaction)
//@   property C14
//@   before any call (*hotline.ClientConn).NewReply assert arg0 == cc && arg1 == t
//@   before any call (*hotline.ClientConn).NewErrReply assert arg0 == cc && arg1 == t

// C20: a threaded-news change is acknowledged (nil error) only after the news file was rewritten --
// through writeFile, which replaces it atomically -- whatever the change turned out to touch; a
// change that is only made in memory is lost by the next restart although the client was told it
// succeeded.
//@ func (n *ThreadedNewsYAML) DeleteNewsItem(newsPath []string) (err error)
//@   property C20
//@   ensures err == nil ==> called("(*mobius.ThreadedNewsYAML).writeFile") && callres("(*mobius.ThreadedNewsYAML).writeFile") == nil
//@ func (n *ThreadedNewsYAML) DeleteArticle(newsPath []string, articleID uint32, recursive bool) (err error)
//@   property C20
//@   ensures err == nil ==> called("(*mobius.ThreadedNewsYAML).writeFile") && callres("(*mobius.ThreadedNewsYAML).writeFile") == nil
//@ func (n *ThreadedNewsYAML) PostArticle(newsPath []string, parentArticleID uint32, article hotline.NewsArtData) (err error)
//@   property C20
//@   ensures err == nil ==> called("(*mobius.ThreadedNewsYAML).writeFile") && callres("(*mobius.ThreadedNewsYAML).writeFile") == nil
//@ func (n *ThreadedNewsYAML) CreateGrouping(newsPath []string, name string, t [2]byte) (err error)
//@   property C20
//@   ensures err == nil ==> called("(*mobius.ThreadedNewsYAML).writeFile") && callres("(*mobius.ThreadedNewsYAML).writeFile") == nil

// C17: an administrator's disconnect request is refused for two reasons only -- the requester may not
// disconnect users, or the target cannot be disconnected; in every other case the target IS
// disconnected, whether or not the requested ban could be saved.
//@ func HandleDisconnectUser(cc *hotline.ClientConn, t *hotline.Transaction) (res []hotline.Transaction)
//@   property C17
//@   before call (*hotline.ClientConn).NewErrReply#1 assert !priv(cc, 22)
//@   before call (*hotline.ClientConn).NewErrReply#2 assert priv(clientConn, 23)
//@   before any call (*hotline.ClientConn).NewErrReply#3 assert false
//@   before any call (*hotline.ClientConn).NewErrReply#4 assert false

// C18: reloading the news file reproduces the stored tree: what Load leaves in memory is what the
// YAML decoder produced from the file -- nothing is rewritten, dropped or "normalised" afterwards.
//@ func (n *ThreadedNewsYAML) Load() (err error)
//@   property C18
//@   once call (*gopkg.in/yaml.v3.Decoder).Decode
//@   before any call mobius.* assert !called("(*gopkg.in/yaml.v3.Decoder).Decode")
//@   before any store ThreadedNews.Categories assert !called("(*gopkg.in/yaml.v3.Decoder).Decode")
//@   before any store ThreadedNewsYAML.ThreadedNews assert !called("(*gopkg.in/yaml.v3.Decoder).Decode")

// C15 / C16: the account list is read off the table every time (a list that is remembered across
// calls goes stale when an account is edited): no return in front of the loop over the table.
//@ func (am *YAMLAccountManager) List() (r []hotline.Account)
//@   property C15 C16
//@   loop 1 always
//@   loop 1 complete
//@   guarded_by am.mu: accounts

// C11: a comment set together with a rename ends up on the renamed file: the info fork is written
// through the wrapper while its paths still name the file, i.e. before the wrapper is moved.
//@ func HandleSetFileInfo(cc *hotline.ClientConn, t *hotline.Transaction) (res []hotline.Transaction)
//@   property C11
//@   before any call (*hotline.fileWrapper).InfoForkWriter assert !called("(*hotline.fileWrapper).Move")

// ---------------------------------------------------------------------------------
// C18: creating a category or bundle never replaces an existing item (which would discard its
// articles): when the name is taken at that path the call fails and the item is untouched; when it
// is free, the new item carries the requested name and type.  The tree is touched under the mutex.

//@ func (n *ThreadedNewsYAML) CreateGrouping(newsPath []string, name string, t [2]byte) (err error)
//@   property C18
//@   let cats := callres("(*mobius.ThreadedNewsYAML).getCatByPath")
//@   ensures has_old(cats, name) ==> err != nil && get(cats, name) == get_old(cats, name)
//@   ensures !has_old(cats, name) ==> has(cats, name) && get(cats, name).Name == name && get(cats, name).Type == t
//@   before call (*mobius.ThreadedNewsYAML).writeFile assert !has_old(cats, name) && locked(n, "mu")
//@   before call (*mobius.ThreadedNewsYAML).getCatByPath assert locked(n, "mu") && same(arg1, newsPath)

// ---------------------------------------------------------------------------------
// C03: goroutines a handler starts run outside the connection's recover wrapper, so a panic in
// them ends the whole process.  The delayed-disconnect goroutines dereference the client they are
// given: it must be non-nil where they are started.  (In HandleDisconnectUser this follows from
// the preceding Authorize call on the looked-up client, which panics -- inside the handler's
// recover -- for a client ID that is not connected.)

//@ func HandleDisconnectUser(cc *hotline.ClientConn, t *hotline.Transaction) (res []hotline.Transaction)
//@   property C03
//@   before call mobius.HandleDisconnectUser$1 assert clientConn != nil

// C16: an edit through the multi-user editor stores the bitmap the editor sent -- bits cleared there
// are cleared in the account (the sent bytes replace the stored ones; privileges are never merged
// in one by one).
//@ func HandleUpdateUser(cc *hotline.ClientConn, t *hotline.Transaction) (res []hotline.Transaction)
//@   property C16
//@   before call builtin.copy#1 assert ptsto(arg0, acc.Access) && len(arg0) == 8 && same(arg1, callres("hotline.GetField#8").Data) && callres("hotline.GetField#7") != nil
//@   before any call (*hotline.AccessBitmap).Set assert false
//@   before any store Account.Access assert false
//@   before call (hotline.AccountManager).Update assert arg1 == *acc
//@   before call hotline.GetField#7 assert arg0[0] == 0 && arg0[1] == 110
//@   before call hotline.GetField#8 assert arg0[0] == 0 && arg0[1] == 110

//@ func HandleUpdateUser(cc *hotline.ClientConn, t *hotline.Transaction) (res []hotline.Transaction)
//@   property C03
//@   before call mobius.HandleUpdateUser$1 assert arg0 != nil

//@ func HandleDeleteUser(cc *hotline.ClientConn, t *hotline.Transaction) (res []hotline.Transaction)
//@   property C03
//@   before call mobius.HandleDeleteUser$1 assert arg0 != nil

// ---------------------------------------------------------------------------------
// C15 / C16: loading the account files.  Every file the directory scan returns ends up in the table
// (an iteration either fails the whole load or stores its account), and the loader -- including the
// migration of the legacy privilege format -- never sets a privilege bit itself.

// C15 / C20: what is loaded as an account is a file whose name ENDS in .yaml; the temporary file
// of an interrupted save (<login>.yaml.tmp) is never an account, and no account's temporary
// file is another account's file (writeFileAtomic: the temporary name is the target's name plus
// ".tmp", written in full and then renamed onto exactly the target).
//@ func NewYAMLAccountManager(accountDir string) (r *YAMLAccountManager, err error)
//@   property C15 C16 C20
//@   before call path/filepath.Glob assert arg0 == callres("path/filepath.Join#1") && len(callarg("path/filepath.Join#1", 0)) == 2 && callarg("path/filepath.Join#1", 0)[0] == accountDir && callarg("path/filepath.Join#1", 0)[1] == "*.yaml"
//@   before any call os.ReadDir assert false
//@ func writeFileAtomic(path string, data []byte) (err error)
//@   property C15 C20
//@   before call os.WriteFile assert arg0 == strcat(path, ".tmp") && same(arg1, data)
//@   before call os.Rename assert arg0 == strcat(path, ".tmp") && arg1 == path && callres("os.WriteFile") == nil
//@   ensures err == nil ==> callres("os.Rename") == nil

//@ func NewYAMLAccountManager(accountDir string) (r *YAMLAccountManager, err error)
//@   property C15 C16
//@   before any call (*hotline.AccessBitmap).Set assert false
//@   before call gopkg.in/yaml.v3.Unmarshal assert same(arg0, callres("os.ReadFile", 0))
//@   before call os.ReadFile assert arg0 == filePath
//@   loop 1 reaches mapupdate

// ---------------------------------------------------------------------------------
// C19: what is served is the file's text with line breaks swapped and nothing else touched: the
// stored bytes are the result of two strings.ReplaceAll calls (LF, then CRLF, to the configured
// line ending) applied to the bytes read from the store's own file.  ReplaceAll works on bytes: a
// text that is not valid UTF-8 (Mac-Roman accents) passes through unchanged.

//@ func (f *FlatNews) Reload() (err error)
//@   property C19
//@   before call os.ReadFile assert arg0 == f.filePath && locked(f, "mu")
//@   before call strings.ReplaceAll#1 assert arg1 == "\n" && arg2 == "\r"
//@   before call strings.ReplaceAll#2 assert arg0 == callres("strings.ReplaceAll#1") && arg1 == "\r\n" && arg2 == "\r"
//@   ensures err == nil ==> bytes(f.data) == bytes(callres("strings.ReplaceAll#2"))
// a reload replaces the text only: a client that is being served (between two Read calls) is not
// sent back to the start of the text
//@   ensures f.readOffset == old(f.readOffset)

//@ func (a *Agreement) Reload() (err error)
//@   property C19
//@   before call os.ReadFile assert arg0 == a.filePath && locked(a, "mu")
//@   before call strings.ReplaceAll#1 assert arg1 == "\n" && arg2 == a.lineEndings
//@   before call strings.ReplaceAll#2 assert arg0 == callres("strings.ReplaceAll#1") && arg1 == "\r\n" && arg2 == a.lineEndings
//@   ensures err == nil ==> bytes(a.data) == bytes(callres("strings.ReplaceAll#2"))
//@   ensures a.readOffset == old(a.readOffset)

//@ func NewAgreement(path string, lineEndings string) (r *Agreement, err error)
//@   property C19
//@   before call strings.ReplaceAll#1 assert arg1 == "\n" && arg2 == lineEndings
//@   before call strings.ReplaceAll#2 assert arg0 == callres("strings.ReplaceAll#1") && arg1 == "\r\n" && arg2 == lineEndings
//@   ensures err == nil ==> bytes(r.data) == bytes(callres("strings.ReplaceAll#2")) && r.lineEndings == lineEndings

// C18: the remaining tree operations.  Deleting an item removes the key named by the last path
// element (and only then saves); article lookups and listings are built from the category at the end of the
// path; all of it under the mutex.

//@ func (n *ThreadedNewsYAML) DeleteNewsItem(newsPath []string) (err error)
//@   property C18
//@   requires n != nil && len(newsPath) >= 1
//@   before call builtin.delete assert arg1 == newsPath[len(newsPath)-1] && locked(n, "mu")
//@   before call (*mobius.ThreadedNewsYAML).writeFile assert called("builtin.delete") && locked(n, "mu")
//@   guarded_by n.mu: ThreadedNews

//@ func (n *ThreadedNewsYAML) GetArticle(newsPath []string, articleID uint32) (r *hotline.NewsArtData)
//@   property C18
//@   requires n != nil
//@   guarded_by n.mu: ThreadedNews

//@ func (n *ThreadedNewsYAML) ListArticles(newsPath []string) (r hotline.NewsArtListData)
//@   property C18
//@   requires n != nil
//@   before call (*hotline.NewsCategoryListData15).GetNewsArtListData assert locked(n, "mu")
//@   guarded_by n.mu: ThreadedNews


// ---------------------------------------------------------------------------------
// C11: a move is refused only for a stated reason: the source cannot be found, or the requester
// lacks the move privilege for that kind of item; otherwise the wrapper is moved to the resolved
// destination and success is reported only if Move returned nil.

// C05: the file-or-folder question that selects the governing privilege is asked about the item
// the request addresses -- the very wrapper that is then moved / deleted -- not about another path.
//@ func HandleMoveFile(cc *hotline.ClientConn, t *hotline.Transaction) (res []hotline.Transaction)
//@   property C05
//@   before any call (os.FileInfo).Mode assert same(arg0, callres("(*hotline.fileWrapper).DataFile", 0))
//@   before any call (io/fs.FileInfo).Mode assert same(arg0, callres("(*hotline.fileWrapper).DataFile", 0))
//@   some call (os.FileInfo).Mode | (os.FileInfo).IsDir | (io/fs.FileInfo).Mode | (io/fs.FileInfo).IsDir
//@   before call (*hotline.fileWrapper).DataFile assert arg0 == callres("hotline.NewFileWrapper", 0)
//@   before any call (os.FileInfo).IsDir assert same(arg0, callres("(*hotline.fileWrapper).DataFile", 0))
//@   before any call (io/fs.FileInfo).IsDir assert same(arg0, callres("(*hotline.fileWrapper).DataFile", 0))
//@   before call (*hotline.fileWrapper).Move assert arg0 == callres("hotline.NewFileWrapper", 0)
//@   before call hotline.NewFileWrapper assert arg1 == callres("hotline.ReadPath#1", 0)
//@ func HandleDeleteFile(cc *hotline.ClientConn, t *hotline.Transaction) (res []hotline.Transaction)
//@   property C05
//@   before any call (os.FileInfo).Mode assert same(arg0, callres("(*hotline.fileWrapper).DataFile", 0))
//@   before any call (io/fs.FileInfo).Mode assert same(arg0, callres("(*hotline.fileWrapper).DataFile", 0))
//@   some call (os.FileInfo).Mode | (os.FileInfo).IsDir | (io/fs.FileInfo).Mode | (io/fs.FileInfo).IsDir
//@   before call (*hotline.fileWrapper).DataFile assert arg0 == callres("hotline.NewFileWrapper", 0)
//@   before any call (os.FileInfo).IsDir assert same(arg0, callres("(*hotline.fileWrapper).DataFile", 0))
//@   before any call (io/fs.FileInfo).IsDir assert same(arg0, callres("(*hotline.fileWrapper).DataFile", 0))
//@   before call (*hotline.fileWrapper).Delete assert arg0 == callres("hotline.NewFileWrapper", 0)
//@   before call hotline.NewFileWrapper assert arg1 == callres("hotline.ReadPath", 0)

//@ func HandleMoveFile(cc *hotline.ClientConn, t *hotline.Transaction) (res []hotline.Transaction)
//@   property C11
//@   before call (*hotline.ClientConn).NewErrReply assert callres("(*hotline.fileWrapper).DataFile", 1) != nil || !priv(cc, 8) || !priv(cc, 4)
//@   before call (*hotline.fileWrapper).Move assert arg1 == callres("hotline.ReadPath#2", 0) && arg0 == callres("hotline.NewFileWrapper", 0)
//@   before call hotline.NewFileWrapper assert arg1 == callres("hotline.ReadPath#1", 0)

// C13: the user-joined notice (and the roster entry it creates on other clients) carries the values
// the server stores for the new user -- the name and icon just assigned, its ID and flags -- not
// values taken from the request.

// (C05 as well: the name that is announced is the stored one -- which the any-name privilege
// governs --, not the name the request carries)
//@ func HandleTranAgreed(cc *hotline.ClientConn, t *hotline.Transaction) (res []hotline.Transaction)
//@   property C05 C13
//@   before call hotline.NewField assert arg0[0] == 0 && arg0[1] == 102 ==> same(arg1, cc.UserName)
//@   before call hotline.NewField assert arg0[0] == 0 && arg0[1] == 104 ==> same(arg1, cc.Icon)
//@   before call hotline.NewField assert arg0[0] == 0 && arg0[1] == 103 ==> ptsto(arg1, cc.ID) && len(arg1) == 2
//@   before call hotline.NewField assert arg0[0] == 0 && arg0[1] == 112 ==> ptsto(arg1, cc.Flags) && len(arg1) == 2

// C05: the display name changes only under the any-name privilege (26): every store to the
// connection's name in these two handlers happens with that privilege held, or stores the
// account's own name.
//@ func HandleSetClientUserInfo(cc *hotline.ClientConn, t *hotline.Transaction) (res []hotline.Transaction)
//@   property C05
//@   before store ClientConn.UserName assert target == cc && priv(cc, 26)
//@ func HandleTranAgreed(cc *hotline.ClientConn, t *hotline.Transaction) (res []hotline.Transaction)
//@   property C05
//@   before store ClientConn.UserName assert target == cc && (priv(cc, 26) || bytes(val) == bytes(cc.Account.Name))

//@ func HandleSetClientUserInfo(cc *hotline.ClientConn, t *hotline.Transaction) (res []hotline.Transaction)
//@   property C05 C13
//@   before call hotline.NewField assert arg0[0] == 0 && arg0[1] == 102 ==> same(arg1, cc.UserName)
//@   before call hotline.NewField assert arg0[0] == 0 && arg0[1] == 104 ==> same(arg1, cc.Icon)
//@   before call hotline.NewField assert arg0[0] == 0 && arg0[1] == 103 ==> ptsto(arg1, cc.ID) && len(arg1) == 2
//@   before call hotline.NewField assert arg0[0] == 0 && arg0[1] == 112 ==> ptsto(arg1, cc.Flags) && len(arg1) == 2

// C18: a news path is walked to its end: every component is looked up in turn and nothing is
// returned or acted upon before the last one (a path through a missing item yields the nil map of
// that missing item, never the children of an ancestor).

//@ func (n *ThreadedNewsYAML) getCatByPath(paths []string) (r map[string]hotline.NewsCategoryListData15)
//@   property C18
//@   requires n != nil
//@   modifies nothing
//@   loop 1 modifies nothing
//@   loop 1 complete
//@ func (n *ThreadedNewsYAML) GetArticle(newsPath []string, articleID uint32) (r *hotline.NewsArtData)
//@   property C18
//@   loop 1 complete
//@ func (n *ThreadedNewsYAML) ListArticles(newsPath []string) (r hotline.NewsArtListData)
//@   property C18
//@   loop 1 complete
//@ func (n *ThreadedNewsYAML) DeleteNewsItem(newsPath []string) (err error)
//@   property C18
//@   loop 1 complete
