package hotline

// Bounded conformance tests of the ASSUMED contracts the verifier uses for library functions
// (govc/stdmodels.go, govc/models_io.go, govc/plugin_streams.go, spec/paths.spec).  They run the
// real libraries on enumerated / pseudo-random inputs and compare with what the model states.
// They are not proofs: each test states its bound, and the evidence lists them under "bounded".
// Injected into package hotline with go test -overlay by ./check <Cxx> thorough.

import (
	"bufio"
	"bytes"
	"encoding/binary"
	"errors"
	"io"
	"math/rand"
	"os"
	"path/filepath"
	"slices"
	"strings"
	"testing"
)

func verifRand() *rand.Rand { return rand.New(rand.NewSource(20261004)) }

// binary.BigEndian get/put: value = sum of bytes * 256^k, round trip; bound: 20000 random values + edges
func TestAssumed_BigEndian(t *testing.T) {
	r := verifRand()
	for i := 0; i < 20000; i++ {
		v := r.Uint64()
		if i < 4 {
			v = []uint64{0, 1, 1<<64 - 1, 1 << 63}[i]
		}
		b := make([]byte, 8)
		binary.BigEndian.PutUint64(b, v)
		var w uint64
		for _, x := range b {
			w = w*256 + uint64(x)
		}
		if w != v || binary.BigEndian.Uint64(b) != v {
			t.Fatalf("PutUint64/Uint64 %d", v)
		}
		binary.BigEndian.PutUint32(b, uint32(v))
		if uint32(b[0])<<24|uint32(b[1])<<16|uint32(b[2])<<8|uint32(b[3]) != uint32(v) || binary.BigEndian.Uint32(b) != uint32(v) {
			t.Fatalf("PutUint32 %d", v)
		}
		binary.BigEndian.PutUint16(b, uint16(v))
		if uint16(b[0])<<8|uint16(b[1]) != uint16(v) || binary.BigEndian.Uint16(b) != uint16(v) {
			t.Fatalf("PutUint16 %d", v)
		}
	}
}

// slices.Concat = concatenation, result does not alias its arguments; bytes.Equal = element-wise
// bound: 5000 random splits of random byte strings up to 64 bytes
func TestAssumed_ConcatEqual(t *testing.T) {
	r := verifRand()
	for i := 0; i < 5000; i++ {
		n := r.Intn(65)
		s := make([]byte, n)
		r.Read(s)
		a, b := r.Intn(n+1), r.Intn(n+1)
		if a > b {
			a, b = b, a
		}
		c := slices.Concat(s[:a], s[a:b], s[b:])
		if !bytes.Equal(c, s) || len(c) != n {
			t.Fatalf("Concat")
		}
		if n > 0 {
			c[0] ^= 0xff
			if bytes.Equal(c, s) {
				t.Fatalf("Concat aliases its argument or Equal ignores a difference")
			}
		}
	}
}

type verifCursor struct {
	w   []byte
	off int
	max int // bytes per Read call
}

func (c *verifCursor) Read(p []byte) (int, error) {
	if c.off >= len(c.w) {
		return 0, io.EOF
	}
	if len(p) > c.max {
		p = p[:c.max]
	}
	n := copy(p, c.w[c.off:])
	c.off += n
	return n, nil
}

// drain lemma: a reader with the cursor contract yields exactly W[off:] to io.ReadAll,
// bytes.Buffer.ReadFrom and io.Copy and ends with off = len W.  bound: |W| <= 40, every off, chunk 1..5
func TestAssumed_DrainLemma(t *testing.T) {
	r := verifRand()
	for n := 0; n <= 40; n++ {
		w := make([]byte, n)
		r.Read(w)
		for off := 0; off <= n; off++ {
			for chunk := 1; chunk <= 5; chunk++ {
				c := &verifCursor{w, off, chunk}
				b, err := io.ReadAll(c)
				if err != nil || !bytes.Equal(b, w[off:]) || c.off != n && !(off == n) {
					t.Fatalf("ReadAll n=%d off=%d", n, off)
				}
				c = &verifCursor{w, off, chunk}
				var buf bytes.Buffer
				buf.WriteString("x")
				k, err := buf.ReadFrom(c)
				if err != nil || int(k) != n-off || !bytes.Equal(buf.Bytes()[1:], w[off:]) {
					t.Fatalf("ReadFrom n=%d off=%d", n, off)
				}
				c = &verifCursor{w, off, chunk}
				var out bytes.Buffer
				k, err = io.Copy(&out, c)
				if err != nil || int(k) != n-off || !bytes.Equal(out.Bytes(), w[off:]) {
					t.Fatalf("Copy n=%d off=%d", n, off)
				}
			}
		}
	}
}

// io.CopyN(dst, src, n): writes min(n, remaining); nil iff n bytes were written.  io.Copy: all
// remaining bytes, nil at EOF.  bufio.Reader.Discard(k): advances by k and returns nil iff k bytes
// remain; io.TeeReader / bufio.NewReader deliver the same stream.  (*os.File).Seek(off, SeekStart).
// bound: file sizes 0..12 (+ 5000 for the buffered path), every k
func TestAssumed_StreamOps(t *testing.T) {
	dir := t.TempDir()
	for _, size := range []int{0, 1, 2, 3, 7, 12, 5000} {
		data := make([]byte, size)
		for i := range data {
			data[i] = byte(i*31 + 7)
		}
		p := filepath.Join(dir, "f")
		if err := os.WriteFile(p, data, 0o644); err != nil {
			t.Fatal(err)
		}
		step := 1
		if size > 100 {
			step = 833
		}
		for k := 0; k <= size+2; k += step {
			f, _ := os.Open(p)
			var out bytes.Buffer
			n, err := io.CopyN(&out, f, int64(k))
			want := k
			if want > size {
				want = size
			}
			if int(n) != want || (err == nil) != (int(n) == k) || !bytes.Equal(out.Bytes(), data[:want]) {
				t.Fatalf("CopyN size=%d k=%d n=%d err=%v", size, k, n, err)
			}
			// the rest by io.Copy
			out.Reset()
			m, err := io.Copy(&out, f)
			if err != nil || int(m) != size-want || !bytes.Equal(out.Bytes(), data[want:]) {
				t.Fatalf("Copy after CopyN size=%d k=%d", size, k)
			}
			f.Close()

			f, _ = os.Open(p)
			br := bufio.NewReader(f)
			d, err := br.Discard(k)
			if (err == nil) != (k <= size) || (err == nil && d != k) {
				t.Fatalf("Discard size=%d k=%d d=%d err=%v", size, k, d, err)
			}
			if err == nil {
				var cnt bytes.Buffer
				out.Reset()
				m, err := io.Copy(&out, io.TeeReader(br, &cnt))
				if err != nil || int(m) != size-k || !bytes.Equal(out.Bytes(), data[k:]) || !bytes.Equal(cnt.Bytes(), data[k:]) {
					t.Fatalf("Copy(Tee(bufio)) size=%d k=%d", size, k)
				}
			}
			f.Close()

			if k <= size {
				f, _ = os.Open(p)
				if _, err := f.Seek(int64(k), io.SeekStart); err != nil {
					t.Fatal(err)
				}
				out.Reset()
				if m, err := io.Copy(&out, f); err != nil || int(m) != size-k || !bytes.Equal(out.Bytes(), data[k:]) {
					t.Fatalf("Copy after Seek size=%d k=%d", size, k)
				}
				f.Close()
			}
		}
	}
	// a nil *os.File cannot be read: io.Copy reports an error and copies nothing
	var nf *os.File
	var out bytes.Buffer
	if n, err := io.Copy(&out, nf); err == nil || n != 0 {
		t.Fatalf("Copy from nil file: n=%d err=%v", n, err)
	}
}

// binary.Write / binary.Read / binary.Size of fixed-size byte structures: the bytes in order
func TestAssumed_BinaryFixed(t *testing.T) {
	h := FlatFileForkHeader{ForkType: [4]byte{1, 2, 3, 4}, CompressionType: [4]byte{5, 6, 7, 8}, RSVD: [4]byte{9, 10, 11, 12}, DataSize: [4]byte{13, 14, 15, 16}}
	var b bytes.Buffer
	if err := binary.Write(&b, binary.BigEndian, h); err != nil || binary.Size(h) != 16 {
		t.Fatal(err)
	}
	for i, x := range b.Bytes() {
		if int(x) != i+1 {
			t.Fatalf("binary.Write order")
		}
	}
	var g FlatFileForkHeader
	if err := binary.Read(bytes.NewReader(b.Bytes()), binary.BigEndian, &g); err != nil || g != h {
		t.Fatalf("binary.Read")
	}
	if err := binary.Read(bytes.NewReader(b.Bytes()[:15]), binary.BigEndian, &g); err == nil {
		t.Fatalf("binary.Read of a short input must fail")
	}
	if err := binary.Read(bytes.NewReader(nil), binary.BigEndian, &g); !errors.Is(err, io.EOF) {
		t.Fatalf("binary.Read of an empty input must report io.EOF")
	}
}

// os.IsNotExist / errors.Is hold only of non-nil errors
func TestAssumed_ErrPredicates(t *testing.T) {
	if os.IsNotExist(nil) || os.IsExist(nil) || errors.Is(nil, os.ErrNotExist) {
		t.Fatal("predicate true of nil")
	}
	_, err := os.Stat(filepath.Join(t.TempDir(), "missing"))
	if !os.IsNotExist(err) || !errors.Is(err, os.ErrNotExist) {
		t.Fatal("missing file not reported as not-exist")
	}
}

// strings.ReplaceAll(s, old, "") is not longer than s; the Mac-Roman encoder does not lengthen
// bound: all strings over a 6-symbol alphabet (incl. multi-byte runes) up to length 5
func TestAssumed_NameLengths(t *testing.T) {
	alpha := []string{"a", ".", "é", "ü", "i", "€"}
	var gen func(prefix string, depth int)
	gen = func(prefix string, depth int) {
		if len(strings.ReplaceAll(prefix+".incomplete", ".incomplete", "")) > len(prefix+".incomplete") {
			t.Fatalf("ReplaceAll lengthened %q", prefix)
		}
		if enc, err := txtEncoder.String(prefix); err == nil && len(enc) > len(prefix) {
			t.Fatalf("encoder lengthened %q", prefix)
		}
		if depth == 0 {
			return
		}
		for _, a := range alpha {
			gen(prefix+a, depth-1)
		}
	}
	gen("", 5)
}

// the axioms of spec/paths.spec about filepath.Join / Dir / Base / Sprintf templates, on every path
// built from up to 3 components over {"a", "b.c", ".", "..", "", "x/y"}: Join("/", ...) is clean
// and absolute; joining a cleaned absolute path or a harmless segment below a directory stays
// below it; Dir/Base of a path strictly below a root; TrimPrefix(Join("/", x), "/") has no ".."
func TestAssumed_PathAxioms(t *testing.T) {
	comps := []string{"a", "b.c", ".", "..", "", "x/y", "../z", "a/../.."}
	root := "/srv/files"
	inroot := func(p string) bool { return p == root || strings.HasPrefix(p, root+"/") }
	rooted := func(q string) bool { return q == filepath.Clean(q) && strings.HasPrefix(q, "/") }
	for _, x := range comps {
		for _, y := range comps {
			for _, z := range comps {
				q := filepath.Join("/", x, y)
				if !rooted(q) || !rooted(filepath.Join("/", x)) {
					t.Fatalf("Join(/,%q,%q) = %q not rooted", x, y, q)
				}
				p := filepath.Join(root, q)
				if !inroot(p) {
					t.Fatalf("Join(root,%q) = %q leaves the root", q, p)
				}
				p3 := filepath.Join(root, filepath.Join("/", x), filepath.Join("/", z))
				if !inroot(p3) {
					t.Fatalf("Join(root,%q,%q) leaves the root", x, z)
				}
				if q != "/" && filepath.Join(root, q) == root {
					t.Fatalf("Join(root,%q) == root", q)
				}
				if p != root {
					if !inroot(filepath.Dir(p)) {
						t.Fatalf("Dir(%q) leaves the root", p)
					}
					b := filepath.Base(p)
					if b == "" || b == "." || b == ".." || strings.Contains(b, "/") {
						t.Fatalf("Base(%q) = %q is not a harmless segment", p, b)
					}
					for _, side := range []string{".rsrc_" + b, ".info_" + b, b + ".incomplete"} {
						if !inroot(filepath.Join(filepath.Dir(p), side)) {
							t.Fatalf("side file %q leaves the root", side)
						}
					}
					if !inroot(p+".incomplete") || !inroot(p+".tmp") {
						t.Fatalf("suffix leaves the root")
					}
				}
				rel := strings.TrimPrefix(q, "/")
				if strings.HasPrefix(rel, "../") || rel == ".." || strings.HasPrefix(rel, "/") {
					t.Fatalf("relative form %q of %q is not safe", rel, q)
				}
				if !inroot(filepath.Join(root, rel)) || !inroot(root+"/"+rel) && rel != "" {
					t.Fatalf("relative form %q leaves the root", rel)
				}
			}
		}
	}
}
