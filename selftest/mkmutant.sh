#!/bin/sh
# selftest/mkmutant.sh <out.diff> <file relative to repo> <python-expr old> <python-expr new>
# creates a patch replacing the first occurrence of OLD by NEW in FILE (both given as literal strings)
set -e
out="$1"; file="$2"; old="$3"; new="$4"
tmp="$(mktemp -d)"; trap 'rm -rf "$tmp"' EXIT
mkdir -p "$tmp/a/$(dirname "$file")" "$tmp/b/$(dirname "$file")"
cp "/repo/$file" "$tmp/a/$file"
OLD="$old" NEW="$new" python3 - "$tmp/a/$file" "$tmp/b/$file" <<'PY'
import sys,os
s=open(sys.argv[1]).read()
old=os.environ['OLD']; new=os.environ['NEW']
assert s.count(old)>=1, "pattern not found: "+old
s=s.replace(old,new,1)
open(sys.argv[2],'w').write(s)
PY
(cd "$tmp" && diff -u "a/$file" "b/$file" > "$out" || true)
test -s "$out"
