#!/bin/sh
# selftest/benign.sh <patch.diff> [Cxx ...]: applies a behaviour-preserving patch to a scratch copy of
# /repo and runs the quick checks on it; every check must stay silent (no VIOLATION).
set -e
patch="$1"; shift
here="$(cd "$(dirname "$0")/.." && pwd)"
props="$*"; [ -n "$props" ] || props="C01 C02 C03 C04 C05 C06 C07 C08 C09 C10 C11 C12 C13 C14 C15 C16 C17 C18 C19 C20"
tmp="$(mktemp -d "${TMPDIR:-/tmp}/govc_benign.XXXXXX")"
trap 'rm -rf "$tmp"' EXIT
rsync -a --exclude .git /repo/ "$tmp/repo/"
(cd "$tmp/repo" && patch -p1 -s < "$patch") || { echo "PATCH-FAILED $patch"; exit 3; }
(cd "$tmp/repo" && GOFLAGS=-mod=mod GOPROXY=off GOSUMDB=off GOTOOLCHAIN=local go build ./... ) || { echo "DOES-NOT-BUILD $patch"; exit 3; }
bad=0
for p in $props; do
  out="$(cd "$here" && VERIF_REPO="$tmp/repo" VERIF_ROOT="$here" VERIF_OUT="$tmp/out" bin/govc check "$p" quick 2>&1 || true)"
  if echo "$out" | grep -q "^VIOLATION"; then
    bad=1; echo "FALSE-ALARM $p $(basename "$patch")"; echo "$out" | grep "^VIOLATION" | sed -e "s|$tmp/out|.|" | head -4
  fi
done
[ $bad = 0 ] && echo "SILENT $(basename "$patch")"
exit $bad
