#!/bin/sh
# selftest/mutant.sh <Cxx> <patch.diff>  -- applies the patch to a scratch copy of /repo and
# runs the property's quick check against it.  Exit 0 iff the check reports a VIOLATION.
set -e
prop="$1"; patch="$2"
here="$(cd "$(dirname "$0")/.." && pwd)"
tmp="$(mktemp -d "${TMPDIR:-/tmp}/govc_mut.XXXXXX")"
trap 'rm -rf "$tmp"' EXIT
rsync -a --exclude .git /repo/ "$tmp/repo/"
(cd "$tmp/repo" && patch -p1 -s < "$patch") || { echo "PATCH-FAILED $patch"; exit 3; }
out="$(cd "$here" && VERIF_REPO="$tmp/repo" VERIF_ROOT="$here" VERIF_OUT="$tmp/out" bin/govc check "$prop" quick 2>&1 || true)"
echo "$out" | grep -E "^VIOLATION|^KNOWN|quick:" | sed -e "s|$tmp/out|.|" | head -8
echo "$out" | grep -q "^load error\|cannot load" && { echo "$out" | grep "load error" | head -3; echo "BROKEN-MUTANT $prop $(basename "$patch")"; exit 4; }
echo "$out" | grep -q "^VIOLATION" && { echo "DETECTED $prop $(basename "$patch")"; exit 0; }
echo "MISSED $prop $(basename "$patch")"; exit 1
